#!/bin/bash
# seedtest.sh <patch.diff> <check-id>... : applies a seeded change to a scratch copy of /repo (never to /repo itself),
# runs the named checks' quick tier against the copy, prints one line per check, removes the copy.
set -u
PATCH=$1; shift
export GOFLAGS=-mod=mod GOPROXY=off GOSUMDB=off GOTOOLCHAIN=local
D=$(mktemp -d /tmp/seedrepo-XXXXXX)
trap 'rm -rf "$D"' EXIT
git -C /repo archive HEAD | tar -x -C "$D"
(cd "$D" && git init -q . && git apply --whitespace=nowarn "$PATCH") || { echo "PATCH DOES NOT APPLY: $PATCH"; exit 3; }
for id in "$@"; do
  out=$(VERIF_REPO="$D" VERIF_OUT="$D/.verif-out" VERIF_DIR=/verif /verif/check "$id" "${TIER:-quick}" 2>&1); rc=$?
  echo "seed=$(basename $(dirname "$PATCH")) check=$id rc=$rc $(echo "$out" | tail -1 | cut -c1-160)"
  echo "$out" | grep -a -m3 -A2 "^VIOLATION\|^BROKEN" | cut -c1-300
done
