#!/bin/bash
# seedtest.sh <patch.diff> <check-id>... : applies a seeded change to a scratch copy of /repo (never to /repo itself),
# runs the named checks' quick tier against the copy, prints one line per check, removes the copy.
set -u
PATCH=$1; shift
export GOFLAGS=-mod=mod GOPROXY=off GOSUMDB=off GOTOOLCHAIN=local
D=$(mktemp -d /tmp/seedrepo-XXXXXX)
trap 'rm -rf "$D"' EXIT
git -C /repo archive HEAD | tar -x -C "$D"
(cd "$D" && git init -q . && git apply --whitespace=nowarn "$PATCH") || { echo "PATCH DOES NOT APPLY: $PATCH"; exit 3; }
for id in "$@"; do
  out=$(VERIF_REPO="$D" VERIF_OUT="$D/.verif-out" VERIF_DIR=/verif /verif/check "$id" "${TIER:-quick}" 2>&1); rc=$?
  echo "seed=$(basename $(dirname "$PATCH")) check=$id rc=$rc $(echo "$out" | tail -1 | cut -c1-160)"
  echo "$out" | grep -a -m3 "^BROKEN" | cut -c1-300
  # signatures of the violations found (replay files live in the scratch copy and go away with it)
  for f in $(ls "$D/.verif-out/replays/$id/"*.json 2>/dev/null | head -4); do
    python3 -c "import json,sys; d=json.load(open(sys.argv[1])); print('  signature:', d['signature'][:120], '| sub:', d['sub'], '| count:', d.get('count')); print('    input:', json.dumps(d['input'])[:400])" "$f"
  done
  if [ -n "${SEED_KEEP:-}" ]; then mkdir -p "$SEED_KEEP"; f=$(ls "$D/.verif-out/replays/$id/"*.json 2>/dev/null | head -1); [ -n "$f" ] && cp "$f" "$SEED_KEEP/$id-replay.json"; fi
  rm -rf "$D/.verif-out/replays"
done
