#!/bin/bash
# Builds the framework once from files on disk (offline) and warms the Go build cache.
set -eu
export GOFLAGS=-mod=mod GOPROXY=off GOSUMDB=off GOTOOLCHAIN=local CGO_ENABLED=0
cd /verif/mc
mkdir -p /verif/.build /verif/evidence /verif/replays
cat /repo/go.sum /repo/learn/go.sum | sort -u > go.sum
go build -o /verif/.build/seamgen ./cmd/seamgen
/verif/.build/seamgen -repo /repo -out /verif/.build/seam -seamsrc /verif/mc/seam/zzseam/zzseam.go.txt
go build -tags verif,seam -overlay /verif/.build/seam/overlay.json -o /verif/.build/mc ./cmd/mc
(cd /repo && go build -o /verif/.build/evy-warm . && rm -f /verif/.build/evy-warm)
echo "setup ok"
