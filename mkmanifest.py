#!/usr/bin/env python3
"""Regenerates MANIFEST.json from the table below (kept in one place so it stays valid)."""
import json, subprocess

CHECKS = {
 "C03": dict(category="exploration", design="§3 C03",
   text="Bounded-exhaustive exploration of the input space of lexer.New/Next and parser.Parse on the real code: all strings over a 15-character alphabet to length 4 (quick) / 6 (thorough), all token sequences over a 47-symbol alphabet to length 3/4 (5 over a reduced alphabet) in four layouts, every rune prefix and every single-token deletion/substitution/insertion of ~150 seed programs (thorough: all pairs of edits on the 24 smallest). Every text is judged by a general oracle: no Go panic, no hang (journal+watchdog), result is program xor non-empty error list, every token's offset/line/column recomputed independently from the text and its spelling found there, every error's position exists, is a token start and shows the name the message quotes.",
   note="Small-scope hypothesis: inputs beyond the bounds that are not within two token edits of a seed are not explored. Trusted: Go's utf8/strings for the position oracle.",
   technique="stateless bounded-exhaustive enumeration of inputs (strings, token sequences, seed edits) against a position/totality oracle"),
}
NOT_YET = {}

def main():
    props = [json.loads(l) for l in open('/verif/properties.jsonl')]
    checks = []
    na = []
    for p in props:
        pid = p['id']
        if pid in CHECKS:
            c = CHECKS[pid]
            checks.append({
              "property_id": pid,
              "quick_cmd": f"./check {pid} quick",
              "thorough_cmd": f"./check {pid} thorough",
              "evidence_file": f"/verif/evidence/{pid}.json",
              "replay_cmd_template": f"./check {pid} --replay {{path}}",
              "engine": "mc",
              "level_claimed": {"category": c['category'], "text": c['text'], "design_ref": c['design']},
              "level_note": c['note'],
              "technique": c['technique'],
            })
        else:
            na.append({"property_id": pid, "reason": NOT_YET.get(pid, "model-checking check designed (DESIGN.md §3) but not built yet in this session; not claimed until it runs clean on the unchanged tree")})
    commits = subprocess.run(['git','-C','/repo','log','--format=%H %s'],capture_output=True,text=True).stdout.strip().split('\n')
    hook_commits = [c.split()[0] for c in commits if ' verif hooks' in c or 'verif:' in c]
    m = {
      "version": 1,
      "setup_cmd": "./setup.sh",
      "hooks": {
        "guard": "verif",
        "enable": "go build -tags verif,seam -overlay <generated map-range seam> (done by ./check; /repo is never modified by a check)",
        "baseline_off_cmd": "for m in . ./learn; do (cd /repo/$m && GOFLAGS=-mod=mod GOPROXY=off GOSUMDB=off GOTOOLCHAIN=local go test -json -vet=off -count=1 -timeout 25m ./...); done",
        "source_commits": hook_commits,
        "add_only": True,
      },
      "engines": [{"name": "mc", "path": "/verif/mc", "serves_properties": sorted(CHECKS), "kind_free_text": "hand-written stateless explorer (choice sequences, deviation bounding), explicit-state BFS with replay, worker/supervisor with journal, reference models in Go, map-iteration seam via go build -overlay"}],
      "checks": checks,
      "not_applicable": na,
      "notes": "All checks are ./check <id> <tier>; they rebuild the mc binary from /repo's working tree on every invocation. Known findings: /verif/known_findings.jsonl.",
    }
    json.dump(m, open('/verif/MANIFEST.json','w'), indent=1)
    print("MANIFEST.json:", len(checks), "checks,", len(na), "not claimed")

main()
