#!/usr/bin/env python3
"""Regenerates MANIFEST.json from the table below (kept in one place so it stays valid)."""
import json, subprocess

CHECKS = {
 "C20": dict(category="fault_enumeration", design="§3 C20",
   text="Seal/unseal round trips for 3 key pairs x 10 answer shapes; every single-byte substitution (255 values) at every position of the decoded envelope, every base64 symbol substitution, every truncation and one-byte extension, and every other key must give an error or the original text; verification matrix of all single-/multiple-choice questions with 2..4 (5) choices x all output assignments x all non-empty subsets of marked letters over a..(n+1), plain and sealed, built in memory and run through the real renderer: Verify() accepts iff the marked set equals the matching set.",
   note="Sealing randomness (session key, OAEP seed) is fresh per run and per worker, not enumerated; single-byte corruptions only. crypto/* is a dependency, not re-verified.",
   technique="exhaustive single-fault enumeration over sealed envelopes and exhaustive enumeration of the verification matrix on the real code"),
 "C18": dict(category="fault_enumeration", design="§3 C18",
   text="Fault enumeration on the real evy binary with strace -e inject: for each configuration (5 inputs x 6 modes x permission bits) a baseline run collects the ordered list of file-system syscalls touching the scratch directory; every element is then failed once with each of ENOSPC/EIO/EACCES and once killed with SIGKILL on entry; coverage is verified from the strace log and gaps are reported. After every run the target holds its complete original or complete formatted text, mode bits are unchanged, unparsable files are untouched with non-zero exit, failures are reported, and -c exits 0 exactly for formatted input without modifying anything.",
   note="Process kill, not power loss; strace cannot produce partial writes; a fault point may be missed because Go moves the goroutine between threads; misses are retried one at a time and, if still missed, listed as gaps (exhaustive:false).",
   technique="exhaustive single-fault and kill-point enumeration over the recorded syscall history of the real binary (strace injection)"),
 "C19": dict(category="model_checking", design="§3 C19",
   text="All sequences of length <= 3 (quick) / 4 (thorough) over ~55 drawing and style commands run through the real evaluator with the real SVG platform and WriteSVG; the output must parse as XML; flattening group inheritance and root attributes must give exactly the shape list of a reference pen state machine written from docs/builtins.md (one shape per command, in order, geometry x10 with y flipped for every kind of shape, stroke/fill/width/dash/linecap/font in effect at drawing time); out-of-domain arguments must terminate with completion or the documented panic; single commands also go through the evy run --svg-out binary.",
   note="Colour strings are compared literally. Recorded findings (frozen by golden files): ellipse y not flipped, ellipse arcs ignored, font baseline written raw, text fill taken from stroke, grid inherits pen width.",
   technique="exhaustive enumeration of command sequences, every transition compared against a reference pen state machine"),
 "C16": dict(category="exploration", design="§3 C16",
   text="Enumerated programs (all nestings to depth 2/3 with scoping/control features and trace globals; every well-typed expression tree with <= 2 operators assigned to a global; constructs the compiler may not know; non-ASCII strings; map insertion order; element stores with bad indices; nested composites and repetition) are compiled; a compile error is accepted; otherwise no statement may be left without code and after VM.Run every global has the value the tree-walking evaluator computes (repr form via the verif hook), or both fail correspondingly (division/modulo by zero only on the VM).",
   note="The evaluator is the reference (itself checked against the specification by C01/C09-C12). Recorded finding: map key insertion order on the VM.",
   technique="bounded-exhaustive enumeration of programs, differential between the two execution engines through a read-only hook"),
 "C17": dict(category="model_checking", design="§3 C17",
   text="For every compiled program of the C16 family plus scaled programs crossing each 16-bit operand (65535/65536/65537) and nesting 1..70: a static verifier explores the emitted control-flow graph over (ip, stack height) - known opcodes, operands and jump targets in range and on boundaries, one height per ip, no underflow, empty at the end - and VM.Run must not panic and must leave sp = LocalCount. Explicit-state BFS over all SymbolTable operation sequences to depth 6 (quick) / 8 (thorough) checks slot distinctness of live locals, innermost resolution and the high-water mark.",
   note="Opcode stack effects are taken from code.go/vm.go (no other specification). Exceeding StackSize is the VM's own guarded error, not judged as ill-formed.",
   technique="explicit-state exploration of the emitted CFG (ip x stack height) and BFS over symbol-table histories on the real code"),
 "C13": dict(category="exploration", design="§3 C13",
   text="Every non-graphics built-in x all argument tuples from value classes, compared with reference built-ins written from docs/builtins.md (rune-wise string functions, err/errmsg protocol, verbs, typeof, test/exit/panic); explicit-state search of the err/errmsg protocol (all histories to depth 4/5); all sequences of <= 2/3 test/exit/panic calls x FailFast x NoTestSummary incl. counts, summary and the binary's exit status; rand/rand1 range laws for every n class x 8 seeds x 64 draws; all value shapes x documented verbs x flags x width x precision; all documented examples with recorded output.",
   note="Undocumented behaviour (other verbs, wrong argument counts, %s/%q of composites, replace with empty pattern) is not judged. Math functions are compared with Go's math. Recorded findings: printf verb mismatch does not panic; rand 0.5 panics.",
   technique="bounded-exhaustive enumeration of calls and call histories, differential against documented reference built-ins"),
 "C08": dict(category="model_checking", design="§3 C08",
   text="Schedules = iteration orders of every Go map the code ranges over. A build-time rewriter (go/packages, -overlay; /repo untouched; regenerated from the working tree on every run so that new map ranges are instrumented automatically) routes every `for .. range <map>` through a seam; the explorer enumerates all n! orders of ranges over <= 4 (thorough 5) keys and 8 structured orders of larger tables with <= 2 (3) deviations per execution, over a program family built so that every map-backed collection holds several entries, and requires identical parse errors, Format text, platform trace and result on every schedule; plus in-process histories (A then B vs B) and repeated fresh processes of the uninstrumented binary.",
   note="Dependence on addresses or timing that does not flow through a map range is outside the seam (none found by reading).",
   technique="stateless exploration of map-iteration schedules through an injected seam, deviation-bounded, on the real code"),
 "C02": dict(category="exploration", design="§3 C02",
   text="Every program the REAL parser accepts out of: all built-ins x all tuples of argument value classes (incl. 2^31, 2^63, 1e300, NaN, +-Inf, non-ASCII/format strings, empty/nested/mixed composites, each also inside an any), all untyped expression trees with <= 1 (quick) / 2 (thorough) operators in 9 statement contexts, the C04 typing matrix, and structural programs (recursion, cyclic values, shadowing in loops, impossible repetitions) is run under a recording platform. The run may end only by completion, documented Evy panic, exit, failed test or step budget - never an internal error, Go panic, process death (worker journal) or hang (watchdog); typeof never reports any/none.",
   note="Faithful execution of huge legal requests is excluded from the alphabet. Three recorded findings: self-containing []any/{}any values overflow the Go stack when printed or compared.",
   technique="bounded-exhaustive enumeration of programs filtered by the real parser, executed in fenced worker processes with a crash journal"),
 "C05": dict(category="exploration", design="§3 C05",
   text="Seeds (all nestings to depth 1/2 with one effect per block, plus hand-written seeds with handlers/variadics/typed functions) x 11 mutation operators, one per static rule, applied at EVERY position where they apply; a mutant is judged when the reference static checker rejects it (stray text: invalid by grammar). Parse must return located errors, Evaluator.Run must return them with an empty effect trace, and the evy run binary must print nothing on stdout, report on stderr and exit non-zero.",
   note="Reference static checker written from docs/spec.md; CLI runs (plain, --svg-out -, --svg-out FILE) for every 400th (quick) / 150th (thorough) mutant per rule.",
   technique="exhaustive single-site mutation of enumerated seed programs, judged by a reference static checker"),
 "C06": dict(category="exploration", design="§3 C06",
   text="Program trees covering every syntax form x all layouts with <= 1 (quick) / 2 (thorough) deviations from the canonical layout (whitespace amount/presence, trailing and own-line comments, blank-line runs, newlines/comments inside literals, tabs, CR) plus NUL bytes at every token boundary. Format(src) must keep the exact non-whitespace token sequence (independent tokenizer, literals by value), parse again to the same tree and behave identically under the recorder.",
   note="Texts that no legal layout of a generated tree produces are out of scope here (C05 covers wrongly accepted texts).",
   technique="deviation-bounded exhaustive enumeration of layouts of enumerated program trees (choice-sequence explorer)"),
 "C07": dict(category="exploration", design="§3 C07",
   text="Same sources as C06: Format is idempotent; every layout variant formats to the same text as its whitespace-equivalent base (same tree, comments and line structure, canonical amounts); the text has 4 spaces per block level, no trailing whitespace, no two consecutive blank lines, exactly one final newline; evy fmt -c accepts exactly the formatter's own output.",
   note="Inside multi-line literals any multiple of four between the block level and one level per open bracket is accepted (the statement does not fix it). Recorded finding: trailing blank line kept (frozen by the suite).",
   technique="deviation-bounded exhaustive enumeration of layouts with equivalence-class comparison"),
 "C01": dict(category="exploration", design="§3 C01",
   text="All well-typed expression trees with up to 2 (quick) / 3 (thorough, reduced leaves) operator nodes over every operator of the specification's table and operand type, leaves = literals, variables and effectful calls (expose operand order and short-circuiting), NaN/Inf operands; each printed with minimal and full parentheses in tight-argument, spaced right-hand-side and grouped contexts; run on the real parser+evaluator and compared (effect trace + result class) with an independent reference interpreter written from docs/spec.md.",
   note="Operand values restricted to the leaf alphabet; IEEE arithmetic itself is Go's float64 on both sides; reference interpreter validated against the 57 documented example outputs.",
   technique="bounded-exhaustive enumeration of expression trees x layouts via the choice-sequence explorer, differential against a reference interpreter"),
 "C04": dict(category="exploration", design="§3 C04",
   text="Complete matrix target type x value x context: all types to nesting depth 3 (quick) / 4 (thorough), values = variable, literal, literal with basic/composite variable, empty literals, constant expressions, call results, in every assignability context (assignment, element/field store, fixed/variadic/generic parameter, return, inferred declaration, condition, range, index, slice bound, assertion source/target, literal element) plus every operator x operand type pair. One program per cell; the parser must accept iff the reference typing rules accept, accepted programs must print the reference's typeof.",
   note="Cells the specification does not settle (non-literal constant expressions converting to any-based composites; typeof of untyped empties; empty literal next to a variable-typed composite) are counted and not judged. Reference rules written from docs/spec.md.",
   technique="exhaustive enumeration of a finite typing matrix against reference typing rules"),
 "C09": dict(category="exploration", design="§3 C09",
   text="All alias histories of up to 3 (quick) / 4 (thorough) steps over 8 value kinds x ~25 alias-creating forms (declaration, assignment, parameter, return, literal element, element/field store, any wrap, loop variable, slice, concatenation, repetition, err/errmsg in both directions) and update forms; every live name printed after every step and compared with the reference interpreter (immutable basic values, reference composites).",
   note="Assignment targets are effect-free (target/value evaluation order is unspecified).",
   technique="bounded-exhaustive enumeration of operation histories via the choice-sequence explorer, differential against a reference interpreter"),
 "C10": dict(category="exploration", design="§3 C10",
   text="All nestings to depth 2 (quick) / 3 (thorough, 6-deviation bounded) of if/else-if/while/for x4/function call with one scoping or control feature per block (shadowing, outer update, local, conditional/final break, conditional/final return), all numeric ranges over {-2..3}^3 incl. bounds modified in the body, collection ranges mutated in the body, recursion; trace compared with the reference interpreter.",
   note="Programs beyond the nesting bound are not explored.",
   technique="bounded-exhaustive enumeration of program structures via the choice-sequence explorer, differential against a reference interpreter"),
 "C11": dict(category="exploration", design="§3 C11",
   text="Every string of length 0..4 (thorough 0..5) over {a, é, 😀} and arrays of length 0..5 crossed with every index / pair of slice bounds from [-n-2,n+2] and the non-integer, huge, NaN and infinite values, as literal and computed; reads, stores, freshness of slices, string element store; expected result computed from the law in the statement.",
   note="For integer-valued floats beyond 2^62 either documented panic class is accepted.",
   technique="exhaustive sweep of a finite index/slice space against the stated law"),
 "C12": dict(category="model_checking", design="§3 C12",
   text="Explicit-state search over map histories: 79 states (ordered key/value lists over 3 keys, 2 values) x ~60 operations incl. iteration with mutation and aliases; every transition replayed on the real evaluator (program = constructing literal + operation) and compared with a reference ordered dictionary; plus all un-deduplicated histories to depth 3 (quick) / 4 (thorough).",
   note="Canonical state = printed map; hidden backing-array state is covered by the raw histories for <= 3 keys.",
   technique="explicit-state BFS over a reference model with every transition replayed against the implementation"),
 "C14": dict(category="fault_enumeration", design="§3 C14",
   text="For every program of an enumerated family (nestings of loops/calls, endless loops, unbounded recursion, niladic built-ins, tests, handlers with events): one uninterrupted run, then one run per yield k in which the Yielder raises the stop flag inside the k-th Yield; checks yields between effects, no Yield after the flag, 'stopped' result, and effects = exactly the prefix performed before the next evaluation step.",
   note="pkg/wasm (TinyGo) side not executed. The flag is polled at the start of each evaluation step: the step whose yield raised the flag (and the built-in call it is the last argument of) completes.",
   technique="exhaustive enumeration of stop points (one per yield) on the real evaluator under a controlled Yielder"),
 "C15": dict(category="model_checking", design="§3 C15",
   text="Explicit-state exploration of event histories: every single handler and pair of handlers with every signature shape and 9 body kinds, all event sequences to depth 4 (quick) / 5 (thorough); after every delivery the cumulative trace is compared with the reference interpreter and with the equivalent procedure program run on the real evaluator.",
   note="Handler bodies come from a menu; browser event loop not executed.",
   technique="exhaustive enumeration of event sequences with every transition validated against a reference model and a differential procedure program"),
 "C03": dict(category="exploration", design="§3 C03",
   text="Bounded-exhaustive exploration of the input space of lexer.New/Next and parser.Parse on the real code: all strings over a 15-character alphabet to length 4 (quick) / 6 (thorough), all token sequences over a 47-symbol alphabet to length 3/4 (5 over a reduced alphabet) in four layouts, every rune prefix and every single-token deletion/substitution/insertion of ~150 seed programs (thorough: all pairs of edits on the 24 smallest). Every text is judged by a general oracle: no Go panic, no hang (journal+watchdog), result is program xor non-empty error list, every token's offset/line/column recomputed independently from the text and its spelling found there, every error's position exists, is a token start and shows the name the message quotes.",
   note="Small-scope hypothesis: inputs beyond the bounds that are not within two token edits of a seed are not explored. Trusted: Go's utf8/strings for the position oracle.",
   technique="stateless bounded-exhaustive enumeration of inputs (strings, token sequences, seed edits) against a position/totality oracle"),
}
NOT_YET = {}

# extensions made after the seeded-change rounds (DESIGN.md §10), appended to the level text
EXT = {
 "C01": " Also: a fourth context (tight argument followed by arguments starting with - and [), operands of type any / []any holding numbers, strings and separately built composites of equal and of differing element types.",
 "C02": " Also: programs that use a name whose declaration failed, any-equality across element types, failing operands inside slice bounds.",
 "C03": " Also: long error lists (1..1000 erroneous lines of five kinds) in front of every seed and of programs with delicate typing; a malformed number literal must be reported at the literal.",
 "C04": " Also: every binding site as a source of variables (loop variable over literal / variable / map, parameter, variadic parameter, function result, element of a variable), literals mixing a variable with literals of the same, another or no element type in both orders, concatenations of differently nested empties. Every binding-site case is parsed again behind 70 erroneous lines (no crash, still rejected); literals with a variable two levels down in both orders; loop variables over nested untyped empties.",
 "C05": " Two further rules: two parameters with one name; a variable declared in one branch of an if statement used in the next branch; type-mismatch mutants also substitute a variable of type any where the construct needs a concrete type. R14: a call without a value in every expression slot and as both operands of every operator.",
 "C06": " Also: every seed with one stray token appended to a line or one punctuation token replaced by another - whatever the parser accepts must survive formatting; comments inside empty literals; own-line comments after blank lines inside literals; word operators without blanks in whitespace-sensitive positions; a 10-level nesting.",
 "C07": " Also: Format applied three times to the same Program object; evy fmt -c over every list of 1..3 files out of {formatted, unformatted} x {.evy, .txtar}; layouts without final newline and with blanks after comments.",
 "C08": " Also: literal typing with several map values, map duplication (repetition, slicing, arguments), every --rand-seed incl. negative ones run repeatedly in fresh processes. In-process histories also over programs that read or set err, errmsg and pi.",
 "C09": " Also: repeated concatenation from one base (spare capacity), repetition of wrapped values, err/errmsg inside literals.",
 "C10": " Also: leaving a loop or function while a shadowing declaration is live; a global declared after the nested body and read by a function.",
 "C11": " Also: string element stores reached through containers (static errors); the code-point view of errmsg across conversions (index, slice, range). Index values one rounding step away from 0, +-1 and +-n.",
 "C12": " Also: for every transition the state's literal evaluated a second time afterwards (function called twice); range without a loop variable whose body deletes.",
 "C13": " Also: messages of failed tests (three-argument form is not a format string), non-ASCII map keys in repr, errmsg code points and left-to-right evaluation with err/errmsg as left operand in the err-protocol search. read through the evy binary with input that ends with, without or before a newline.",
 "C14": " Also: for every effect of the uninterrupted run, a run in which the platform raises the flag inside that effect (Sleep/Read/Print...), once with and once without a Yielder installed; calls as the last evaluated operand of every expression form. Endless loops with a leaf condition and nothing to evaluate in the body.",
 "C15": " Also: single-handler programs behind three top-level preludes that leave loops and functions early before the globals are declared; a parameter with the name of a global. Handlers whose parameter is declared with a type other than the payload's: rejected, or the handler runs once.",
 "C16": " Hand-written programs the parser rejects are a harness error (globals are read automatically), audited by go test -tags verif ./checks.",
 "C18": " A seventh mode checks a file followed by a formatted file (fmt -c a b); permission bits include group/other write bits under umask 022; fault points missed in the parallel pass are retried one at a time. Archives without final newline (fmt -c exits 0 iff -w would write the file back byte for byte); after every killed or failed -w the file is edited and formatted again undisturbed in the same directory.",
 "C19": " Also: three drawings x seven ways a program can end (normally, exit 0/3, panic, failed test, run-time error, bad argument) x --svg-out to a file and to stdout through the real binary. Every line of gridn is compared (position from the origin, every fifth thick); the same command drawn twice in a row leaves the first shape unchanged and styles the second alike.",
 "C20": " Also: choices whose output differs from the question's only in white space or the final newline; a text and an image question over the same program files verified after seven histories of earlier verifications in one process; seal/unseal of the front matter answer incl. surrounding white space. Questions verified by parse errors (all assignments x all marked subsets incl. a letter without program); front matter histories to length 5 with Verify and edits of the answer.",
}

def main():
    props = [json.loads(l) for l in open('/verif/properties.jsonl')]
    checks = []
    na = []
    for p in props:
        pid = p['id']
        if pid in CHECKS:
            c = CHECKS[pid]
            checks.append({
              "property_id": pid,
              "quick_cmd": f"./check {pid} quick",
              "thorough_cmd": f"./check {pid} thorough",
              "evidence_file": f"/verif/evidence/{pid}.json",
              "replay_cmd_template": f"./check {pid} --replay {{path}}",
              "engine": "mc",
              "level_claimed": {"category": c['category'], "text": c['text'] + EXT.get(pid, ""), "design_ref": c['design']},
              "level_note": c['note'],
              "technique": c['technique'],
            })
        else:
            na.append({"property_id": pid, "reason": NOT_YET.get(pid, "model-checking check designed (DESIGN.md §3) but not built yet in this session; not claimed until it runs clean on the unchanged tree")})
    commits = subprocess.run(['git','-C','/repo','log','--format=%H %s'],capture_output=True,text=True).stdout.strip().split('\n')
    hook_commits = [c.split()[0] for c in commits if ' verif hooks' in c or 'verif:' in c]
    m = {
      "version": 1,
      "setup_cmd": "./setup.sh",
      "hooks": {
        "guard": "verif",
        "enable": "go build -tags verif,seam -overlay <generated map-range seam> (done by ./check; /repo is never modified by a check)",
        "baseline_off_cmd": "for m in . ./learn; do (cd /repo/$m && GOFLAGS=-mod=mod GOPROXY=off GOSUMDB=off GOTOOLCHAIN=local go test -json -vet=off -count=1 -timeout 25m ./...); done",
        "source_commits": hook_commits,
        "add_only": True,
      },
      "engines": [{"name": "mc", "path": "/verif/mc", "serves_properties": sorted(CHECKS), "kind_free_text": "hand-written stateless explorer (choice sequences, deviation bounding), explicit-state BFS with replay, worker/supervisor with journal, reference models in Go, map-iteration seam via go build -overlay"}],
      "checks": checks,
      "not_applicable": na,
      "notes": "All checks are ./check <id> <tier>; they rebuild the mc binary from /repo's working tree on every invocation. Known findings: /verif/known_findings.jsonl.",
    }
    json.dump(m, open('/verif/MANIFEST.json','w'), indent=1)
    print("MANIFEST.json:", len(checks), "checks,", len(na), "not claimed")

main()
