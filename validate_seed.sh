#!/bin/bash
# validate_seed.sh <patch.diff> : applies the change to a scratch copy of /repo and confirms that it still builds
# and that the complete existing test suite (both modules) still passes. Prints VALID or INVALID.
set -u
export GOFLAGS=-mod=mod GOPROXY=off GOSUMDB=off GOTOOLCHAIN=local
PATCH=$1
D=$(mktemp -d /tmp/seedval-XXXXXX)
trap 'rm -rf "$D"' EXIT
git -C /repo archive HEAD | tar -x -C "$D"
(cd "$D" && git init -q . && git apply --whitespace=nowarn "$PATCH") || { echo "INVALID (patch does not apply) $PATCH"; exit 1; }
(cd "$D" && go build ./... && cd learn && go build ./...) > "$D/build.log" 2>&1 || { echo "INVALID (does not build) $PATCH"; tail -5 "$D/build.log"; exit 1; }
(cd "$D" && go test -count=1 ./... && cd learn && go test -count=1 ./...) > "$D/test.log" 2>&1 || { echo "INVALID (suite fails) $PATCH"; grep -a "^--- FAIL\|^FAIL" "$D/test.log" | head -5; exit 1; }
echo "VALID $PATCH"
