#!/usr/bin/env python3
"""mkseedmeta.py <logdir>: writes seeded/<id>-<m>/meta.json from the logs of validate_seed.sh (val-*.log) and
seedtest.sh (run-*.log), and prints the detection table (markdown)."""
import json, os, re, sys, glob
logdir = sys.argv[1]
rows = []
# baseline: the checks as they were before any seeded change was looked at (verif commit f5b25c4)
baseline = {}
for bfn in ('oldqueue.log', 'r2queue.log', 'r3queue.log', 'r4queue.log', 'r5queue.log'):
    bf = os.path.join(logdir, bfn)
    if os.path.exists(bf):
        for line in open(bf, errors='replace'):
            mo = re.match(r'seed=(C\d\d-(?:r[2345])?m\d) check=(\S+) rc=(\d+)', line)
            if mo:
                baseline.setdefault(mo.group(1), []).append({'check': mo.group(2), 'exit': int(mo.group(3)), 'detected': mo.group(3) == '1'})
for d in sorted(glob.glob('/verif/seeded/C*-*m[0-9]')):
    name = os.path.basename(d); pid, m = name.split('-')
    readme = open(os.path.join(d, 'README.md')).read() if os.path.exists(os.path.join(d, 'README.md')) else ''
    title = readme.split('\n', 1)[0].lstrip('# ').strip()
    title = re.sub(r'^C\d\d\s*[/ ]\s*m\d\s*(--|:|—|-)?\s*', '', title)
    title = re.sub(r'^C\d\d-r\dm\d\s*(--|:|—|–|-)?\s*', '', title)
    mm = re.search(r'(?s)Exposed by:?\s*(.*?)(\n\s*\n|\n[A-Z][a-z ]+ (tests|do not|does not)|\nExisting|\nNot noticed|\nGolden|\nCommands)', readme)
    needs = ' '.join(mm.group(1).split()) if mm else ''
    if not needs:  # round 5: a section "## What is needed (for it) to manifest ..." up to the next heading
        m2 = re.search(r'(?ms)^#+ [^\n]*needed[^\n]*manifest[^\n]*\n(.*?)(?=^#+ |\Z)', readme)
        if m2:
            needs = ' '.join(m2.group(1).split())[:900]
    val = ''
    vf = os.path.join(logdir, f'val-{pid}-{m}.log')
    if os.path.exists(vf):
        val = open(vf).read().strip().split(' ')[0]
    checks = []
    rf = os.path.join(logdir, f'run-{pid}-{m}.log')
    if os.path.exists(rf):
        cur = None
        for line in open(rf, errors='replace'):
            mo = re.match(r'seed=\S+ check=(\S+) rc=(\d+) (.*)', line)
            if mo:
                cur = {'check': mo.group(1), 'tier': 'quick', 'exit': int(mo.group(2)), 'detected': mo.group(2) == '1', 'summary': mo.group(3).strip(), 'signatures': []}
                checks.append(cur)
            mo = re.match(r'\s+signature: (.*?) \| sub: (\S+) \| count: (\S+)', line)
            if mo and cur is not None:
                cur['signatures'].append(mo.group(1))
    extra = os.path.join(d, 'detection-extra.json')  # hand-recorded runs (other tiers, re-runs after strengthening)
    if os.path.exists(extra):
        checks += json.load(open(extra))
    meta = {
        'property': pid, 'seed': name, 'change': title,
        'needs_to_manifest': needs,
        'files': sorted(f for f in os.listdir(d) if f not in ('meta.json',)),
        'validated': {'command': f'/verif/validate_seed.sh seeded/{name}/patch.diff', 'result': val,
                      'meaning': 'applied to a scratch copy of /repo HEAD: go build ./... and go test ./... pass in both modules (786-test baseline included)'},
        'checks_run': [{'command': f'/verif/seedtest.sh seeded/{name}/patch.diff {c["check"]}', **c} for c in checks],
        'detected_by': sorted({c['check'] for c in checks if c['detected']}),
        'baseline_before_strengthening': {'verif_commit': '6fe80e1' if 'r5' in name else '41ba078' if 'r4' in name else 'fcda767' if 'r3' in name else ('eb71efd' if 'r2' in name else 'f5b25c4'), 'runs': baseline.get(name, []),
                                          'detected_by': sorted({b['check'] for b in baseline.get(name, []) if b['detected']})},
    }
    json.dump(meta, open(os.path.join(d, 'meta.json'), 'w'), indent=1, ensure_ascii=False)
    rows.append(meta)
print('| seed | change | suite | before | now, quick tier | first signature |')
print('|---|---|---|---|---|---|')
for r in rows:
    det = ', '.join(r['detected_by']) or '**missed**'
    sig = next((s for c in r['checks_run'] if c['detected'] for s in c['signatures']), '')
    missed = sorted({c['check'] for c in r['checks_run'] if not c['detected']} - set(r['detected_by']))
    if missed and r['detected_by']:
        det += ' (not: ' + ', '.join(missed) + ')'
    b = r['baseline_before_strengthening']
    before = ', '.join(b['detected_by']) or ('missed' if b['runs'] else '-')
    print(f"| {r['seed']} | {r['change'][:110]} | {r['validated']['result']} | {before} | {det} | `{sig[:90]}` |")
