#!/usr/bin/env python3
"""Mutation sweep (an evaluation aid, not a check): first-order mutants of the anchored source files are applied to
scratch copies of /repo (never to /repo), mutants that the repository's own tests kill are discarded, and the surviving
ones are handed to the checks of the properties anchored in that file.  A survivor no check reports is either an
equivalent mutant or a gap in a check; those are listed for reading.

  sweep.py tests  <out.jsonl> [workers]      phase A: which mutants survive `go build` + the package's tests + the full suite
  sweep.py checks <out.jsonl> <res.jsonl> [workers] [seconds]   phase B: run the mapped checks (quick tier) on survivors
"""
import json, os, subprocess, sys, time, glob, shutil, multiprocessing as mp, hashlib

ENV = dict(os.environ, GOFLAGS='-mod=mod', GOPROXY='off', GOSUMDB='off', GOTOOLCHAIN='local')
ROOT = '/tmp/mut'
BASE = ROOT + '/base'   # pristine `git archive HEAD` of /repo, made before the sweep starts
FILES = {
 'pkg/lexer/lexer.go': 'C03,C06,C01,C07',
 'pkg/parser/expression.go': 'C04,C03,C05,C06,C01,C02',
 'pkg/parser/parser.go': 'C04,C03,C05,C06,C10,C02,C15',
 'pkg/parser/type.go': 'C04,C02,C05,C01',
 'pkg/parser/scope.go': 'C04,C05,C10',
 'pkg/parser/ast.go': 'C04,C06,C07,C02,C05',
 'pkg/parser/format.go': 'C06,C07',
 'pkg/parser/multiline.go': 'C06,C07',
 'pkg/evaluator/evaluator.go': 'C11,C14,C02,C10,C15,C09,C12,C01,C13',
 'pkg/evaluator/value.go': 'C11,C02,C09,C12,C01,C13,C08',
 'pkg/evaluator/builtin.go': 'C13,C02,C15,C09,C14,C08',
 'pkg/evaluator/ranger.go': 'C11,C10,C12,C14,C02',
 'pkg/evaluator/scope.go': 'C10,C15,C02',
 'pkg/evaluator/runtime.go': 'C14,C13,C15',
 'pkg/bytecode/compiler.go': 'C17,C16',
 'pkg/bytecode/vm.go': 'C16,C17',
 'pkg/bytecode/value.go': 'C16,C17',
 'pkg/bytecode/symbol.go': 'C17,C16',
 'pkg/bytecode/code.go': 'C17,C16',
 'main.go': 'C18,C07,C05,C19,C13',
 'pkg/cli/svg/svg.go': 'C19',
 'pkg/cli/svg/runtime.go': 'C19',
 'pkg/cli/runtime.go': 'C13,C19,C05,C14',
 'learn/pkg/learn/answer.go': 'C20',
 'learn/pkg/learn/encrypt.go': 'C20',
 'learn/pkg/learn/question.go': 'C20',
 'learn/pkg/learn/questionfm.go': 'C20',
 'learn/pkg/learn/frontmatter.go': 'C20',
}

def sh(cmd, cwd, timeout=600):
    try:
        p = subprocess.run(cmd, shell=True, cwd=cwd, env=ENV, stdout=subprocess.PIPE, stderr=subprocess.STDOUT, timeout=timeout)
        return p.returncode, p.stdout.decode('utf8', 'replace')
    except subprocess.TimeoutExpired:
        return 124, 'timeout'

def copy_for(worker):
    d = f'{ROOT}/w{worker}'
    if not os.path.exists(d + '/go.mod'):
        os.makedirs(d, exist_ok=True)
        subprocess.run(f'cp -a {BASE}/. {d}/', shell=True, check=True)
    return d

def mid(m):
    return hashlib.sha1(f"{m['file']}:{m['off']}:{m['repl']}".encode()).hexdigest()[:10]

def apply(d, m):
    p = f"{d}/{m['file']}"
    src = open(BASE + '/' + m['file'], 'rb').read()
    open(p, 'wb').write(src[:m['off']] + m['repl'].encode() + src[m['end']:])

def restore(d, m):
    shutil.copyfile(BASE + '/' + m['file'], f"{d}/{m['file']}")

def test_one(args):
    m, = args
    w = mp.current_process()._identity[0]
    d = copy_for(w)
    apply(d, m)
    try:
        learn = m['file'].startswith('learn/')
        mod = d + '/learn' if learn else d
        pkg = './' + os.path.dirname(m['file'][6:] if learn else m['file']) + '/...' if os.path.dirname(m['file']) else '.'
        rc, out = sh(f'go build ./... && go vet {pkg}', mod, 300)
        if rc != 0:
            return dict(m, id=mid(m), status='nocompile')
        rc, out = sh(f'go test -count=1 -timeout 120s {pkg}', mod, 300)
        if rc != 0:
            return dict(m, id=mid(m), status='killed-pkg')
        rc, out = sh('go test -count=1 -timeout 300s ./...', mod, 600)
        if rc != 0:
            return dict(m, id=mid(m), status='killed-suite')
        if not learn:
            rc, out = sh('go test -count=1 -timeout 300s ./...', d + '/learn', 600)
            if rc != 0:
                return dict(m, id=mid(m), status='killed-suite')
        return dict(m, id=mid(m), status='survived')
    finally:
        restore(d, m)

def check_one(args):
    m, = args
    w = mp.current_process()._identity[0]
    d = copy_for(w)
    apply(d, m)
    t0 = time.time()
    try:
        ids = FILES[m['file']]
        out_dir = f'{d}/.verif-out'
        shutil.rmtree(out_dir, ignore_errors=True)
        env = dict(ENV, VERIF_REPO=d, VERIF_OUT=out_dir, VERIF_DIR='/verif', STOP_AT_FIRST='1')
        try:
            p = subprocess.run(['/verif/checkmany', ids, 'quick'], env=env, stdout=subprocess.PIPE, stderr=subprocess.STDOUT, timeout=1500)
            out, rc = p.stdout.decode('utf8', 'replace'), p.returncode
        except subprocess.TimeoutExpired:
            out, rc = 'timeout', 124
        res = [l for l in out.splitlines() if l.startswith('RESULT') or l.startswith('BROKEN')]
        det = [l.split()[1] for l in res if l.startswith('RESULT') and ' rc=1 ' in l]
        sig = ''
        for f in glob.glob(out_dir + '/replays/*/*.json')[:1]:
            try:
                j = json.load(open(f)); sig = j.get('signature', '')[:160] + ' | ' + json.dumps(j.get('input'))[:300]
            except Exception:
                pass
        shutil.rmtree(out_dir, ignore_errors=True)
        return dict(m, detected_by=det, rc=rc, results=[r[:260] for r in res], signature=sig, wall=round(time.time() - t0, 1))
    finally:
        restore(d, m)

def main():
    mode = sys.argv[1]
    if mode == 'tests':
        out = sys.argv[2]; workers = int(sys.argv[3]) if len(sys.argv) > 3 else 6
        files = sys.argv[4].split(',') if len(sys.argv) > 4 else list(FILES)
        done = set()
        if os.path.exists(out):
            done = {json.loads(l)['id'] for l in open(out)}
        muts = []
        for f in files:
            p = subprocess.run([f'{ROOT}/mutgen', BASE, f], stdout=subprocess.PIPE, check=True)
            muts += [json.loads(l) for l in p.stdout.decode().splitlines()]
        muts = [m for m in muts if mid(m) not in done]
        # interleave files so that a partial run covers all of them
        muts.sort(key=lambda m: hashlib.sha1(mid(m).encode()).hexdigest())
        print(len(muts), 'mutants to test', flush=True)
        with mp.Pool(workers) as pool, open(out, 'a') as fo:
            n = 0
            for r in pool.imap_unordered(test_one, [(m,) for m in muts]):
                fo.write(json.dumps(r) + '\n'); fo.flush(); n += 1
                if n % 50 == 0: print(n, flush=True)
    elif mode == 'checks':
        src, out = sys.argv[2], sys.argv[3]; workers = int(sys.argv[4]) if len(sys.argv) > 4 else 4
        budget = float(sys.argv[5]) if len(sys.argv) > 5 else 1e9
        done = set()
        if os.path.exists(out):
            done = {json.loads(l)['id'] for l in open(out)}
        muts = [json.loads(l) for l in open(src)]
        muts = [m for m in muts if m['status'] == 'survived' and m['id'] not in done]
        print(len(muts), 'survivors to check', flush=True)
        t0 = time.time()
        with mp.Pool(workers) as pool, open(out, 'a') as fo:
            for r in pool.imap_unordered(check_one, [(m,) for m in muts]):
                fo.write(json.dumps(r) + '\n'); fo.flush()
                print(r['id'], r['file'], r['line'], r['desc'][:60], '->', r['detected_by'] or 'NOT DETECTED', flush=True)
                if time.time() - t0 > budget:
                    pool.terminate(); break

if __name__ == '__main__':
    main()
