// gen lists first-order mutants of Go source files as JSON lines (file, byte range, replacement, description).
// Operators: relational boundary/negation, && <-> ||, +1 <-> -1 on integer literal 1, true <-> false,
// deletion of a simple statement (call, plain assignment, ++/--), `break`/`continue` swap is left out.
// Token positions come from go/scanner and go/parser, so comments and string literals are never touched.
package main

import (
	"encoding/json"
	"fmt"
	"go/ast"
	"go/parser"
	"go/scanner"
	"go/token"
	"os"
	"strings"
)

type mutant struct {
	File string `json:"file"`
	Off  int    `json:"off"`
	End  int    `json:"end"`
	Repl string `json:"repl"`
	Line int    `json:"line"`
	Desc string `json:"desc"`
}

var swaps = map[token.Token][]string{
	token.LSS: {"<="}, token.LEQ: {"<"}, token.GTR: {">="}, token.GEQ: {">"},
	token.EQL: {"!="}, token.NEQ: {"=="}, token.LAND: {"||"}, token.LOR: {"&&"},
}

func main() {
	root := os.Args[1]
	enc := json.NewEncoder(os.Stdout)
	for _, rel := range os.Args[2:] {
		src, err := os.ReadFile(root + "/" + rel)
		if err != nil {
			fmt.Fprintln(os.Stderr, err)
			os.Exit(1)
		}
		fset := token.NewFileSet()
		f := fset.AddFile(rel, -1, len(src))
		var s scanner.Scanner
		s.Init(f, src, nil, 0)
		var prev token.Token
		for {
			pos, tok, lit := s.Scan()
			if tok == token.EOF {
				break
			}
			off := f.Offset(pos)
			line := f.Line(pos)
			if reps, ok := swaps[tok]; ok {
				for _, r := range reps {
					enc.Encode(mutant{rel, off, off + len(tok.String()), r, line, tok.String() + " -> " + r})
				}
			}
			if tok == token.INT && lit == "1" && (prev == token.ADD || prev == token.SUB) {
				enc.Encode(mutant{rel, off, off + 1, "0", line, "±1 -> ±0"})
			}
			if tok == token.IDENT && (lit == "true" || lit == "false") {
				r := "true"
				if lit == "true" {
					r = "false"
				}
				enc.Encode(mutant{rel, off, off + len(lit), r, line, lit + " -> " + r})
			}
			prev = tok
		}
		fs2 := token.NewFileSet()
		af, err := parser.ParseFile(fs2, rel, src, 0)
		if err != nil {
			continue
		}
		ast.Inspect(af, func(n ast.Node) bool {
			bl, ok := n.(*ast.BlockStmt)
			if !ok {
				if cc, ok2 := n.(*ast.CaseClause); ok2 {
					emitDeletions(enc, fs2, rel, src, cc.Body)
				}
				return true
			}
			emitDeletions(enc, fs2, rel, src, bl.List)
			return true
		})
	}
}

func emitDeletions(enc *json.Encoder, fset *token.FileSet, rel string, src []byte, list []ast.Stmt) {
	for _, st := range list {
		okKind := false
		switch s := st.(type) {
		case *ast.ExprStmt:
			_, okKind = s.X.(*ast.CallExpr)
		case *ast.AssignStmt:
			okKind = s.Tok != token.DEFINE
		case *ast.IncDecStmt:
			okKind = true
		}
		if !okKind {
			continue
		}
		a, b := fset.Position(st.Pos()).Offset, fset.Position(st.End()).Offset
		txt := string(src[a:b])
		if strings.Contains(txt, "\n") || strings.Contains(txt, "panic(") {
			continue
		}
		enc.Encode(mutant{rel, a, b, "_ = 0", fset.Position(st.Pos()).Line, "delete: " + txt})
	}
}
