#!/usr/bin/env python3
"""mkstatus.py [evidence-dir]: prints a markdown table of what each check covered, from the evidence files."""
import json, sys, os
d = sys.argv[1] if len(sys.argv) > 1 else '/verif/evidence'
print('| id | tier | evaluations | distinct | non-trivial | outcomes | exhaustive | known findings hit | selected counters | wall s |')
print('|---|---|---|---|---|---|---|---|---|---|')
for i in range(1, 21):
    f = os.path.join(d, f'C{i:02d}.json')
    if not os.path.exists(f):
        continue
    e = json.load(open(f)); c = e['coverage']
    cnt = c.get('counters') or {}
    keys = [k for k in cnt if not k.startswith(('op:', 'builtin:', 'site:', 'action-', 'judged:', 'mutant-still', 'ref-skip:ill-typed:'))]
    keys = sorted(keys, key=lambda k: -cnt[k])[:6]
    sel = ', '.join(f'{k}={cnt[k]}' for k in keys)
    kf = c.get('known_findings_hit') or []
    print(f"| {e['property_id']} | {e['tier']} | {c['evaluations']} | {c['distinct_cases']} | {c['distinct_nontrivial']} | {c['distinct_outcomes']} | {c['exhaustive']} | {len(kf)} | {sel} | {e.get('wall_s', '')} |")
