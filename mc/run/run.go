// Package run drives the real evaluator under a recording platform that owns
// every environment answer (input lines, yields, stop flag, random seed).
package run

import (
	"errors"
	"fmt"
	"math/rand"
	"runtime/debug"
	"sort"
	"strconv"
	"strings"
	"time"

	"evylang.dev/evy/pkg/evaluator"
	"evylang.dev/evy/pkg/parser"
)

// Rec implements evaluator.Platform and evaluator.Yielder.
type Rec struct {
	Trace      []string
	YieldsAt   []int // number of yields seen when each effect happened
	Inputs     []string
	inPos      int
	Yields     int
	StopAt     int // raise the stop flag inside the StopAt-th Yield (0: never)
	Budget     int // raise the stop flag when Yields exceeds Budget (0: default)
	BudgetHit  bool
	YieldAfter int // Yield calls observed after the stop flag was raised
	stopped    bool
	Ev         *evaluator.Evaluator
	NoYielder  bool
	// StopAtEffect raises the stop flag inside the StopAtEffect-th platform effect (0: never): the platform's own
	// Sleep/Read/Print is where a browser raises it when there is no yielder
	StopAtEffect int
}

// StopIgnored is the panic value raised when a run keeps producing effects long after the stop flag was raised inside an effect.
const StopIgnored = "VERIF-STOP-IGNORED"

// DefaultBudget is the default step bound (in yields) for generated programs.
const DefaultBudget = 200000

func (r *Rec) eff(s string) {
	r.Trace = append(r.Trace, s)
	r.YieldsAt = append(r.YieldsAt, r.Yields)
	if r.StopAtEffect > 0 {
		if len(r.Trace) == r.StopAtEffect {
			r.stopped = true
			r.Ev.Stopped = true
		} else if len(r.Trace) > r.StopAtEffect+25 {
			panic(StopIgnored) // bounded: an ignored stop would otherwise run an endless program forever
		}
	}
}

func f(x float64) string { return strconv.FormatFloat(x, 'g', -1, 64) }

// Print records a print effect.
func (r *Rec) Print(s string) { r.eff("print:" + s) }

// Read answers from the scripted input list ("" when exhausted).
func (r *Rec) Read() string {
	s := ""
	if r.inPos < len(r.Inputs) {
		s = r.Inputs[r.inPos]
		r.inPos++
	}
	r.eff("read:" + s)
	return s
}

// Cls records a cls effect.
func (r *Rec) Cls() { r.eff("cls") }

// Sleep records but never sleeps.
func (r *Rec) Sleep(d time.Duration) { r.eff("sleep:" + d.String()) }

// Yielder returns the recorder itself.
func (r *Rec) Yielder() evaluator.Yielder {
	if r.NoYielder {
		return nil
	}
	return r
}

// Yield counts and possibly raises the stop flag.
func (r *Rec) Yield() {
	r.Yields++
	if r.stopped {
		r.YieldAfter++
		return
	}
	budget := r.Budget
	if budget == 0 {
		budget = DefaultBudget
	}
	if r.StopAt > 0 && r.Yields == r.StopAt {
		r.stopped = true
		r.Ev.Stopped = true
	} else if r.Yields > budget {
		r.stopped = true
		r.BudgetHit = true
		r.Ev.Stopped = true
	}
}

func (r *Rec) Move(x, y float64)         { r.eff("move:" + f(x) + "," + f(y)) }
func (r *Rec) Line(x, y float64)         { r.eff("line:" + f(x) + "," + f(y)) }
func (r *Rec) Rect(x, y float64)         { r.eff("rect:" + f(x) + "," + f(y)) }
func (r *Rec) Circle(x float64)          { r.eff("circle:" + f(x)) }
func (r *Rec) Width(x float64)           { r.eff("width:" + f(x)) }
func (r *Rec) Color(s string)            { r.eff("color:" + s) }
func (r *Rec) Clear(s string)            { r.eff("clear:" + s) }
func (r *Rec) Stroke(s string)           { r.eff("stroke:" + s) }
func (r *Rec) Fill(s string)             { r.eff("fill:" + s) }
func (r *Rec) Linecap(s string)          { r.eff("linecap:" + s) }
func (r *Rec) Text(s string)             { r.eff("text:" + s) }
func (r *Rec) Gridn(u float64, c string) { r.eff("gridn:" + f(u) + "," + c) }
func (r *Rec) Poly(v [][]float64)        { r.eff(fmt.Sprint("poly:", v)) }
func (r *Rec) Dash(v []float64)          { r.eff(fmt.Sprint("dash:", v)) }
func (r *Rec) Ellipse(x, y, rx, ry, rot, a, b float64) {
	r.eff(fmt.Sprint("ellipse:", x, y, rx, ry, rot, a, b))
}

// Font records the properties in sorted key order.
func (r *Rec) Font(p map[string]any) {
	ks := make([]string, 0, len(p))
	for k := range p {
		ks = append(ks, k)
	}
	sort.Strings(ks)
	var sb strings.Builder
	for _, k := range ks {
		fmt.Fprintf(&sb, "%s=%v;", k, p[k])
	}
	r.eff("font:" + sb.String())
}

// Opts configures a run.
type Opts struct {
	Inputs        []string
	StopAt        int
	Budget        int
	Seed          int64 // rand seed (0 → 1)
	FailFast      bool
	NoTestSummary bool
	Events        []evaluator.Event
	NoYielder     bool
	StopAtEffect  int
}

// Outcome is the observable result of a run.
type Outcome struct {
	ParseErr   string   // parser.Errors text, "" if accepted
	NParseErrs int      // number of parse errors
	Trace      []string // effects
	YieldsAt   []int
	Class      string // ok | parse-error | panic:<kind> | exit:<n> | test-fail | stopped | budget | internal | gopanic
	Err        string // error text
	GoPanic    string // recovered Go panic value + stack head
	Yields     int
	YieldAfter int
	EventErrs  []string // class of each HandleEvent call
	EvTraceLen []int    // trace length after top level and after each event
	Fails      int
	Total      int
}

// Builtins is the parser view of the built-ins (constant for the process).
var Builtins = evaluator.BuiltinDecls()

// Classify maps an evaluator error to a class string.
func Classify(err error, budgetHit bool) string {
	if err == nil {
		return "ok"
	}
	var ee evaluator.ExitError
	var pe parser.Errors
	var te evaluator.TestErrors
	switch {
	case errors.As(err, &pe):
		return "parse-error"
	case errors.Is(err, evaluator.ErrStopped):
		if budgetHit {
			return "budget"
		}
		return "stopped"
	case errors.As(err, &ee):
		return "exit:" + strconv.Itoa(int(ee))
	case errors.As(err, &te), errors.Is(err, evaluator.ErrTest):
		return "test-fail"
	case errors.Is(err, evaluator.ErrInternal):
		return "internal"
	case errors.Is(err, evaluator.ErrBounds):
		return "panic:bounds"
	case errors.Is(err, evaluator.ErrIndexValue):
		return "panic:index-value"
	case errors.Is(err, evaluator.ErrSlice):
		return "panic:slice"
	case errors.Is(err, evaluator.ErrMapKey):
		return "panic:map-key"
	case errors.Is(err, evaluator.ErrBadRepetition):
		return "panic:repetition"
	case errors.Is(err, evaluator.ErrAnyConversion):
		return "panic:assertion"
	case errors.Is(err, evaluator.ErrRangevalue):
		return "panic:range"
	case errors.Is(err, evaluator.ErrBadArguments):
		return "panic:bad-arguments"
	case errors.Is(err, evaluator.ErrVarNotSet):
		return "panic:var-not-set"
	case errors.Is(err, evaluator.ErrPanic):
		var pe evaluator.PanicError
		if errors.As(err, &pe) {
			return "panic:user"
		}
		return "panic:other"
	}
	return "unknown-error"
}

// Parse parses src under recover.
func Parse(src string) (prog *parser.Program, errs parser.Errors, gopanic string) {
	defer func() {
		if r := recover(); r != nil {
			gopanic = fmt.Sprint(r) + "\n" + stackHead()
			prog, errs = nil, nil
		}
	}()
	p, err := parser.Parse(src, Builtins)
	if err != nil {
		var pe parser.Errors
		if errors.As(err, &pe) {
			return nil, pe, ""
		}
		return nil, nil, "parser.Parse returned a non-Errors error: " + err.Error()
	}
	return p, nil, ""
}

func stackHead() string {
	s := string(debug.Stack())
	lines := strings.Split(s, "\n")
	var keep []string
	for _, l := range lines {
		if strings.Contains(l, "evylang.dev/evy") && !strings.Contains(l, "\t") {
			l = strings.TrimSpace(l)
			if k := strings.LastIndex(l, "("); k > 0 {
				l = l[:k]
			}
			keep = append(keep, l)
			if len(keep) >= 4 {
				break
			}
		}
	}
	return strings.Join(keep, " <- ")
}

// PanicSite extracts the innermost evy function of a recovered panic's stack summary.
func PanicSite(gopanic string) string {
	i := strings.Index(gopanic, "\n")
	if i < 0 {
		return ""
	}
	rest := gopanic[i+1:]
	if j := strings.Index(rest, " <- "); j >= 0 {
		rest = rest[:j]
	}
	if k := strings.LastIndex(rest, "/"); k >= 0 {
		rest = rest[k+1:]
	}
	return rest
}

// Run parses and evaluates src on a fresh evaluator with a recording platform.
func Run(src string, o Opts) (out Outcome) {
	rec := &Rec{Inputs: o.Inputs, StopAt: o.StopAt, Budget: o.Budget, NoYielder: o.NoYielder, StopAtEffect: o.StopAtEffect}
	seed := o.Seed
	if seed == 0 {
		seed = 1
	}
	evaluator.RandSource = rand.New(rand.NewSource(seed)) //nolint:gosec
	defer func() {
		if r := recover(); r != nil {
			out.Class = "gopanic"
			out.GoPanic = fmt.Sprint(r) + "\n" + stackHead()
			out.Trace, out.YieldsAt, out.Yields = rec.Trace, rec.YieldsAt, rec.Yields
		}
	}()
	ev := evaluator.NewEvaluator(rec)
	rec.Ev = ev
	ev.TestInfo.FailFast = o.FailFast
	ev.TestInfo.NoTestSummary = o.NoTestSummary
	prog, err := parser.Parse(src, Builtins)
	if err != nil {
		var pe parser.Errors
		if errors.As(err, &pe) {
			out.NParseErrs = len(pe)
		}
		out.ParseErr = err.Error()
		out.Class = "parse-error"
		out.Err = err.Error()
		return out
	}
	err = ev.Eval(prog)
	out.Class = Classify(err, rec.BudgetHit)
	if err != nil {
		out.Err = err.Error()
	}
	out.EvTraceLen = append(out.EvTraceLen, len(rec.Trace))
	if err == nil || out.Class == "test-fail" {
		for _, e := range o.Events {
			herr := ev.HandleEvent(e)
			out.EventErrs = append(out.EventErrs, Classify(herr, rec.BudgetHit))
			out.EvTraceLen = append(out.EvTraceLen, len(rec.Trace))
			if herr != nil {
				break
			}
		}
	}
	out.Trace, out.YieldsAt, out.Yields, out.YieldAfter = rec.Trace, rec.YieldsAt, rec.Yields, rec.YieldAfter
	out.Fails, out.Total = ev.TestInfo.FailCount(), ev.TestInfo.TotalCount()
	return out
}

// TraceString renders a trace for comparison and messages.
func TraceString(t []string) string { return strings.Join(t, "\x1e") }

// Show renders a trace readably.
func Show(t []string) string {
	var sb strings.Builder
	for _, e := range t {
		sb.WriteString(strconv.Quote(e))
		sb.WriteByte(' ')
	}
	return sb.String()
}
