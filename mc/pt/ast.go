// Package pt is the harness's own program-tree representation of Evy programs,
// independent of /repo's parser AST: types, expressions, statements, a printer that
// decides parentheses from its own copy of the specification's precedence table, and
// layout variation. Generators build PTs; reference models interpret them.
package pt

import "strings"

// Kind of a type.
type Kind int

// Kinds.
const (
	Num Kind = iota
	Str
	Bool
	Any
	Arr
	Map
	None
)

// Type is an Evy type. Arr/Map with Sub==nil is the untyped empty composite (⊥).
type Type struct {
	K   Kind
	Sub *Type
}

// Interned basic types.
var (
	TNum  = &Type{K: Num}
	TStr  = &Type{K: Str}
	TBool = &Type{K: Bool}
	TAny  = &Type{K: Any}
	TNone = &Type{K: None}
	TEArr = &Type{K: Arr}
	TEMap = &Type{K: Map}
)

// ArrOf returns []t.
func ArrOf(t *Type) *Type { return &Type{K: Arr, Sub: t} }

// MapOf returns {}t.
func MapOf(t *Type) *Type { return &Type{K: Map, Sub: t} }

func (t *Type) String() string {
	if t == nil {
		return "<nil>"
	}
	switch t.K {
	case Num:
		return "num"
	case Str:
		return "string"
	case Bool:
		return "bool"
	case Any:
		return "any"
	case None:
		return "none"
	case Arr:
		if t.Sub == nil {
			return "[]"
		}
		return "[]" + t.Sub.String()
	case Map:
		if t.Sub == nil {
			return "{}"
		}
		return "{}" + t.Sub.String()
	}
	return "?"
}

// Eq is structural equality (⊥ only equals ⊥).
func (t *Type) Eq(u *Type) bool {
	if t == nil || u == nil {
		return t == u
	}
	if t.K != u.K {
		return false
	}
	if t.K == Arr || t.K == Map {
		return t.Sub.Eq(u.Sub)
	}
	return true
}

// Composite reports arrays and maps.
func (t *Type) Composite() bool { return t.K == Arr || t.K == Map }

// HasBottom reports whether t contains an untyped empty composite.
func (t *Type) HasBottom() bool {
	if !t.Composite() {
		return false
	}
	return t.Sub == nil || t.Sub.HasBottom()
}

// Infer replaces ⊥ by any at every depth.
func (t *Type) Infer() *Type {
	if !t.Composite() {
		return t
	}
	if t.Sub == nil {
		return &Type{K: t.K, Sub: TAny}
	}
	return &Type{K: t.K, Sub: t.Sub.Infer()}
}

// ParseType parses "[]{}num" style text.
func ParseType(s string) *Type {
	switch {
	case s == "num":
		return TNum
	case s == "string":
		return TStr
	case s == "bool":
		return TBool
	case s == "any":
		return TAny
	case strings.HasPrefix(s, "[]"):
		return ArrOf(ParseType(s[2:]))
	case strings.HasPrefix(s, "{}"):
		return MapOf(ParseType(s[2:]))
	}
	panic("pt.ParseType: " + s)
}

// Expr is an expression node.
type Expr interface{ isExpr() }

// Expression nodes.
type (
	NumLit struct {
		V    float64
		Text string // spelling; "" = canonical
	}
	StrLit  struct{ V string }
	BoolLit struct{ V bool }
	Var     struct{ Name string }
	Unary   struct {
		Op string // "-" "!"
		X  Expr
	}
	Binary struct {
		Op   string
		L, R Expr
	}
	Index struct{ X, I Expr }
	Slice struct{ X, Lo, Hi Expr } // Lo/Hi may be nil
	Dot   struct {
		X   Expr
		Key string
	}
	Group struct{ X Expr }
	Call  struct {
		Name string
		Args []Expr
	}
	Assert struct {
		X Expr
		T *Type
	}
	ArrLit struct{ Els []Expr }
	MapLit struct {
		Keys []string
		Vals []Expr
	}
)

func (NumLit) isExpr()  {}
func (StrLit) isExpr()  {}
func (BoolLit) isExpr() {}
func (Var) isExpr()     {}
func (Unary) isExpr()   {}
func (Binary) isExpr()  {}
func (Index) isExpr()   {}
func (Slice) isExpr()   {}
func (Dot) isExpr()     {}
func (Group) isExpr()   {}
func (Call) isExpr()    {}
func (Assert) isExpr()  {}
func (ArrLit) isExpr()  {}
func (MapLit) isExpr()  {}

// Stmt is a statement node.
type Stmt interface{ isStmt() }

// Param is a typed parameter.
type Param struct {
	Name string
	T    *Type
}

// Statement nodes.
type (
	TypedDecl struct {
		Name string
		T    *Type
	}
	InferDecl struct {
		Name string
		X    Expr
	}
	Assign struct {
		Target Expr // Var, Index or Dot chain
		X      Expr
	}
	CallStmt struct{ C Call }
	If       struct {
		Conds  []Expr
		Blocks [][]Stmt
		Else   []Stmt // nil: no else
	}
	While struct {
		Cond Expr
		Body []Stmt
	}
	For struct {
		Var   string // "" = none
		Range []Expr // 1..3 num expressions or one collection
		Body  []Stmt
	}
	Break  struct{}
	Return struct{ X Expr } // X nil: bare
	Func   struct {
		Name     string
		Ret      *Type // nil: none
		Params   []Param
		Variadic bool // single param is variadic
		Body     []Stmt
	}
	On struct {
		Name   string
		Params []Param
		Body   []Stmt
	}
	Comment struct{ Text string } // own-line comment (layout only)
	Blank   struct{}              // empty line (layout only)
	Raw     struct{ Text string } // verbatim line(s), for mutants
)

func (TypedDecl) isStmt() {}
func (InferDecl) isStmt() {}
func (Assign) isStmt()    {}
func (CallStmt) isStmt()  {}
func (If) isStmt()        {}
func (While) isStmt()     {}
func (For) isStmt()       {}
func (Break) isStmt()     {}
func (Return) isStmt()    {}
func (Func) isStmt()      {}
func (On) isStmt()        {}
func (Comment) isStmt()   {}
func (Blank) isStmt()     {}
func (Raw) isStmt()       {}

// Prog is a program.
type Prog struct{ Stmts []Stmt }

// Helpers for building trees tersely.

// N is a number literal.
func N(v float64) Expr { return NumLit{V: v} }

// S is a string literal.
func S(v string) Expr { return StrLit{V: v} }

// B is a bool literal.
func B(v bool) Expr { return BoolLit{V: v} }

// V is a variable.
func V(name string) Expr { return Var{Name: name} }

// Bin is a binary expression.
func Bin(op string, l, r Expr) Expr { return Binary{Op: op, L: l, R: r} }

// C is a call expression.
func C(name string, args ...Expr) Call { return Call{Name: name, Args: args} }

// Print is a print statement.
func Print(args ...Expr) Stmt { return CallStmt{C: Call{Name: "print", Args: args}} }

// A is an array literal.
func A(els ...Expr) Expr { return ArrLit{Els: els} }

// M is a map literal from alternating key, value.
func M(kv ...any) Expr {
	m := MapLit{}
	for i := 0; i+1 < len(kv); i += 2 {
		m.Keys = append(m.Keys, kv[i].(string))
		m.Vals = append(m.Vals, kv[i+1].(Expr))
	}
	return m
}
