package pt

// Rewriting helpers: rebuild a program applying a function at every expression slot or every
// statement list. Site-indexed mutation is built on top of them (a counter inside the callback).

// BlockCtx describes the statement list being visited.
type BlockCtx struct {
	Kind   string // "top" "func" "on" "if" "else" "while" "for"
	InLoop bool
	InFunc bool  // inside func or on
	Ret    *Type // result type of the enclosing function (nil: procedure / handler / top level)
	Owner  Stmt  // the statement that owns the block (Func, On, If, While, For) or nil
}

// MapBlocks rebuilds the program; f receives each (already rebuilt) statement list and returns its replacement.
func MapBlocks(p *Prog, f func(ss []Stmt, cx BlockCtx) []Stmt) *Prog {
	return &Prog{Stmts: mapBlock(p.Stmts, BlockCtx{Kind: "top"}, f)}
}

func mapBlock(ss []Stmt, cx BlockCtx, f func([]Stmt, BlockCtx) []Stmt) []Stmt {
	out := make([]Stmt, 0, len(ss))
	for _, s := range ss {
		switch v := s.(type) {
		case If:
			n := If{Conds: v.Conds}
			for _, b := range v.Blocks {
				c := cx
				c.Kind, c.Owner = "if", v
				n.Blocks = append(n.Blocks, mapBlock(b, c, f))
			}
			if v.Else != nil {
				c := cx
				c.Kind, c.Owner = "else", v
				n.Else = mapBlock(v.Else, c, f)
			}
			out = append(out, n)
		case While:
			c := cx
			c.Kind, c.InLoop, c.Owner = "while", true, v
			out = append(out, While{Cond: v.Cond, Body: mapBlock(v.Body, c, f)})
		case For:
			c := cx
			c.Kind, c.InLoop, c.Owner = "for", true, v
			out = append(out, For{Var: v.Var, Range: v.Range, Body: mapBlock(v.Body, c, f)})
		case Func:
			c := BlockCtx{Kind: "func", InFunc: true, Ret: v.Ret, Owner: v}
			n := v
			n.Body = mapBlock(v.Body, c, f)
			out = append(out, n)
		case On:
			c := BlockCtx{Kind: "on", InFunc: true, Owner: v}
			n := v
			n.Body = mapBlock(v.Body, c, f)
			out = append(out, n)
		default:
			out = append(out, s)
		}
	}
	return f(out, cx)
}

// MapExprs rebuilds the program; f is applied bottom-up to every expression node. slot names the
// syntactic position of top-level expressions ("decl", "assign", "target", "cond", "arg", "range", "return").
func MapExprs(p *Prog, f func(e Expr, slot string) Expr) *Prog {
	return MapBlocks(p, func(ss []Stmt, _ BlockCtx) []Stmt {
		out := make([]Stmt, len(ss))
		for i, s := range ss {
			out[i] = mapStmtExprs(s, f)
		}
		return out
	})
}

func mapStmtExprs(s Stmt, f func(Expr, string) Expr) Stmt {
	switch v := s.(type) {
	case InferDecl:
		return InferDecl{Name: v.Name, X: mapExpr(v.X, "decl", f)}
	case Assign:
		return Assign{Target: mapExpr(v.Target, "target", f), X: mapExpr(v.X, "assign", f)}
	case CallStmt:
		return CallStmt{C: mapExpr(v.C, "callstmt", f).(Call)}
	case If:
		n := v
		n.Conds = make([]Expr, len(v.Conds))
		for i, c := range v.Conds {
			n.Conds[i] = mapExpr(c, "cond", f)
		}
		return n
	case While:
		n := v
		n.Cond = mapExpr(v.Cond, "cond", f)
		return n
	case For:
		n := v
		n.Range = make([]Expr, len(v.Range))
		for i, r := range v.Range {
			n.Range[i] = mapExpr(r, "range", f)
		}
		return n
	case Return:
		if v.X == nil {
			return v
		}
		return Return{X: mapExpr(v.X, "return", f)}
	}
	return s
}

func mapExpr(e Expr, slot string, f func(Expr, string) Expr) Expr {
	sub := func(x Expr, s string) Expr {
		if x == nil {
			return nil
		}
		return mapExpr(x, s, f)
	}
	switch v := e.(type) {
	case Unary:
		e = Unary{Op: v.Op, X: sub(v.X, "operand")}
	case Binary:
		e = Binary{Op: v.Op, L: sub(v.L, "operand"), R: sub(v.R, "operand")}
	case Index:
		e = Index{X: sub(v.X, "indexed"), I: sub(v.I, "index")}
	case Slice:
		e = Slice{X: sub(v.X, "indexed"), Lo: sub(v.Lo, "index"), Hi: sub(v.Hi, "index")}
	case Dot:
		e = Dot{X: sub(v.X, "indexed"), Key: v.Key}
	case Group:
		e = Group{X: sub(v.X, slot)}
	case Assert:
		e = Assert{X: sub(v.X, "operand"), T: v.T}
	case Call:
		n := Call{Name: v.Name}
		for _, a := range v.Args {
			n.Args = append(n.Args, sub(a, "arg"))
		}
		e = n
	case ArrLit:
		n := ArrLit{}
		for _, a := range v.Els {
			n.Els = append(n.Els, sub(a, "element"))
		}
		e = n
	case MapLit:
		n := MapLit{Keys: v.Keys}
		for _, a := range v.Vals {
			n.Vals = append(n.Vals, sub(a, "element"))
		}
		e = n
	}
	return f(e, slot)
}
