package pt

import (
	"strconv"
	"strings"
)

// Chooser decides layout choice points; nil means canonical layout (always 0).
type Chooser func(n int, label string) int

// Printer turns a PT into Evy source text.
type Printer struct {
	Ch Chooser
	// FullParens prints every binary/unary sub-expression in parentheses.
	FullParens bool
	// Vertical enables blank-line/comment-line choice points between statements.
	Vertical bool
	// Horizontal enables whitespace choice points inside lines.
	Horizontal bool
	// Comments enables trailing-comment choice points.
	Comments bool
	// Multiline enables newline / comment choice points inside array and map literals.
	Multiline bool
	litDepth  int
	sb        strings.Builder
	ncomment  int
}

func (p *Printer) ch(n int, label string) int {
	if p.Ch == nil {
		return 0
	}
	return p.Ch(n, label)
}

func (p *Printer) pick(label string, menu ...string) string {
	if !p.Horizontal || p.Ch == nil {
		return menu[0]
	}
	return menu[p.Ch(len(menu), label)]
}

// Source prints a program in canonical layout.
func Source(pr *Prog) string { return (&Printer{}).Program(pr) }

// ExprText prints an expression (spaced context).
func ExprText(e Expr) string {
	p := &Printer{}
	return p.expr(e, false)
}

// ExprTight prints an expression in a tight (argument) context.
func ExprTight(e Expr) string {
	p := &Printer{}
	return p.expr(e, true)
}

// Program prints a whole program.
func (p *Printer) Program(pr *Prog) string {
	p.sb.Reset()
	p.vertical(0, "file-start")
	p.stmts(pr.Stmts, 0)
	p.vertical(0, "file-end")
	out := p.sb.String()
	if p.Vertical && p.ch(2, "no-final-newline") == 1 && !strings.HasSuffix(out, "\n\n") {
		// only the newline that ends the last line is optional; after a blank line, dropping a newline would drop the blank line
		out = strings.TrimSuffix(out, "\n")
	}
	return out
}

var prec = map[string]int{
	"or": 1, "and": 2, "==": 3, "!=": 3, "<": 4, "<=": 4, ">": 4, ">=": 4, "+": 5, "-": 5, "*": 6, "/": 6, "%": 6,
}

const (
	precUnary = 7
	precIndex = 8
)

func exprPrec(e Expr) int {
	switch v := e.(type) {
	case Binary:
		return prec[v.Op]
	case Unary:
		return precUnary
	case NumLit:
		if v.V < 0 {
			return precUnary
		}
	}
	return 9
}

// FormatNum renders a number the way Evy prints it.
func FormatNum(v float64) string { return strconv.FormatFloat(v, 'f', -1, 64) }

func (p *Printer) paren(inner string) string {
	return "(" + p.pick("ws-after-open", "", " ") + inner + p.pick("ws-before-close", "", " ") + ")"
}

// expr prints e; tight = no horizontal whitespace allowed at this level.
func (p *Printer) expr(e Expr, tight bool) string {
	switch v := e.(type) {
	case NumLit:
		if v.Text != "" {
			return v.Text
		}
		return FormatNum(v.V)
	case StrLit:
		return strconv.Quote(v.V)
	case BoolLit:
		return strconv.FormatBool(v.V)
	case Var:
		return v.Name
	case Group:
		return p.paren(p.top(v.X))
	case Unary:
		x := p.expr(v.X, tight)
		if exprPrec(v.X) < precUnary || p.FullParens && exprPrec(v.X) < 9 {
			x = p.paren(p.top(v.X))
		}
		return v.Op + x
	case Binary:
		if tight && (v.Op == "and" || v.Op == "or") {
			if p.Horizontal && p.ch(2, "tight-andor") == 1 {
				// the keyword operators need no blanks next to parentheses: (a)and(b)
				return p.paren(p.top(v.L)) + v.Op + p.paren(p.top(v.R))
			}
			return p.paren(p.expr(e, false))
		}
		pr := prec[v.Op]
		l := p.expr(v.L, tight)
		if exprPrec(v.L) < pr || p.FullParens && exprPrec(v.L) < 9 {
			l = p.paren(p.top(v.L))
		}
		r := p.expr(v.R, tight)
		if exprPrec(v.R) <= pr || p.FullParens && exprPrec(v.R) < 9 {
			r = p.paren(p.top(v.R))
		}
		if tight {
			return l + v.Op + r
		}
		if v.Op == "and" || v.Op == "or" {
			return l + p.pick("ws-binop", " ", "  ", "\t") + v.Op + p.pick("ws-binop", " ", "  ", "\t") + r
		}
		return l + p.pick("ws-binop", " ", "", "  ") + v.Op + p.pick("ws-binop", " ", "", "  ") + r
	case Index:
		return p.postfixBase(v.X, tight) + "[" + p.pick("ws-after-open", "", " ") + p.top(v.I) + p.pick("ws-before-close", "", " ") + "]"
	case Slice:
		lo, hi := "", ""
		if v.Lo != nil {
			lo = p.top(v.Lo)
		}
		if v.Hi != nil {
			hi = p.top(v.Hi)
		}
		return p.postfixBase(v.X, tight) + "[" + p.pick("ws-after-open", "", " ") + lo + p.pick("ws-slice-colon", "", " ") + ":" + p.pick("ws-slice-colon", "", " ") + hi + p.pick("ws-before-close", "", " ") + "]"
	case Dot:
		return p.postfixBase(v.X, tight) + "." + v.Key
	case Assert:
		return p.postfixBase(v.X, tight) + ".(" + v.T.String() + ")"
	case Call:
		return p.paren(p.call(v))
	case ArrLit:
		return p.arrLit(v)
	case MapLit:
		return p.mapLit(v)
	}
	panic("pt.Printer: unknown expression")
}

func (p *Printer) postfixBase(x Expr, tight bool) string {
	s := p.expr(x, tight)
	if exprPrec(x) < precIndex {
		return p.paren(p.top(x))
	}
	if _, isCall := x.(Call); isCall {
		return s // already parenthesised
	}
	return s
}

// top prints a top-level expression (whitespace allowed; a call may stand bare).
func (p *Printer) top(e Expr) string {
	if c, ok := e.(Call); ok {
		if p.ch(2, "bare-call") == 1 {
			return p.call(c)
		}
		return p.paren(p.call(c))
	}
	return p.expr(e, false)
}

func (p *Printer) call(c Call) string {
	parts := []string{c.Name}
	for _, a := range c.Args {
		parts = append(parts, p.expr(a, true))
	}
	if !p.Horizontal {
		return strings.Join(parts, " ")
	}
	var sb strings.Builder
	for i, s := range parts {
		if i > 0 {
			sb.WriteString(p.pick("ws-list-sep", " ", "  ", "\t"))
		}
		sb.WriteString(s)
	}
	return sb.String()
}

// litSep emits the separator at a position inside a literal: canonical text def, or (with Multiline)
// a newline, or a comment and a newline. kind is "open", "sep" or "close".
func (p *Printer) litSep(kind, def string) string {
	if !p.Multiline || p.Ch == nil {
		return def
	}
	switch p.Ch(7, "lit-"+kind) {
	case 1:
		return "\n"
	case 2:
		p.ncomment++
		return " // m" + strconv.Itoa(p.ncomment) + "\n"
	case 3:
		return "\n\n"
	case 4: // a comment on its own line
		p.ncomment++
		return "\n// m" + strconv.Itoa(p.ncomment) + "\n"
	case 5: // two blank lines, then a comment on its own line
		p.ncomment++
		return "\n\n\n// m" + strconv.Itoa(p.ncomment) + "\n"
	case 6: // a trailing comment, a blank line, a comment on its own line
		p.ncomment += 2
		return " // m" + strconv.Itoa(p.ncomment-1) + "\n\n    // m" + strconv.Itoa(p.ncomment) + "\n"
	}
	return def
}

// emptyLit emits the inside of an empty literal: nothing, blanks, a newline, or comments (with Multiline).
func (p *Printer) emptyLit() string {
	if !p.Multiline || p.Ch == nil {
		return p.pick("ws-after-open", "", " ")
	}
	switch p.Ch(5, "lit-empty") {
	case 1:
		return "\n"
	case 2:
		p.ncomment++
		return " // m" + strconv.Itoa(p.ncomment) + "\n"
	case 3:
		p.ncomment += 2
		return " // m" + strconv.Itoa(p.ncomment-1) + "\n    // m" + strconv.Itoa(p.ncomment) + "\n"
	case 4:
		p.ncomment++
		return "\n\n// m" + strconv.Itoa(p.ncomment) + "\n\n"
	}
	return p.pick("ws-after-open", "", " ")
}

func (p *Printer) arrLit(v ArrLit) string {
	var sb strings.Builder
	sb.WriteString("[")
	if len(v.Els) == 0 {
		sb.WriteString(p.emptyLit())
	}
	if len(v.Els) > 0 {
		sb.WriteString(p.litSep("open", p.pick("ws-after-open", "", " ")))
	}
	for i, e := range v.Els {
		if i > 0 {
			sb.WriteString(p.litSep("sep", p.pick("ws-list-sep", " ", "  ", "\t")))
		}
		sb.WriteString(p.expr(e, true))
	}
	if len(v.Els) > 0 {
		sb.WriteString(p.litSep("close", p.pick("ws-before-close", "", " ")))
	}
	sb.WriteString("]")
	return sb.String()
}

func (p *Printer) mapLit(v MapLit) string {
	var sb strings.Builder
	sb.WriteString("{")
	if len(v.Keys) == 0 {
		sb.WriteString(p.emptyLit())
	}
	if len(v.Keys) > 0 {
		sb.WriteString(p.litSep("open", p.pick("ws-after-open", "", " ")))
	}
	for i, k := range v.Keys {
		if i > 0 {
			sb.WriteString(p.litSep("sep", p.pick("ws-list-sep", " ", "  ", "\t")))
		}
		sb.WriteString(k + ":" + p.expr(v.Vals[i], true))
	}
	if len(v.Keys) > 0 {
		sb.WriteString(p.litSep("close", p.pick("ws-before-close", "", " ")))
	}
	sb.WriteString("}")
	return sb.String()
}

func (p *Printer) indent(depth int) string {
	canon := strings.Repeat("    ", depth)
	if !p.Horizontal || depth == 0 {
		return canon
	}
	return p.pick("ws-indent", canon, "", strings.Repeat("\t", depth), strings.Repeat("  ", depth))
}

func (p *Printer) eol() string {
	s := ""
	if p.Comments {
		switch p.ch(3, "trailing-comment") {
		case 1:
			p.ncomment++
			s = p.pick("ws-before-comment", " ", "", "  ") + "// c" + strconv.Itoa(p.ncomment)
		case 2: // a comment that itself ends in blanks
			p.ncomment++
			s = p.pick("ws-before-comment", " ", "", "  ") + "// c" + strconv.Itoa(p.ncomment) + " \t"
		}
	}
	return s + p.pick("ws-line-end", "", " ", "\t", " \r") + "\n"
}

// vertical emits optional blank/comment lines before a statement position.
func (p *Printer) vertical(depth int, where string) {
	if !p.Vertical {
		return
	}
	switch p.ch(6, "vertical:"+where) {
	case 1:
		p.sb.WriteString("\n")
	case 2:
		p.sb.WriteString("\n\n")
	case 3:
		p.sb.WriteString("\n\n\n")
	case 4:
		p.ncomment++
		p.sb.WriteString(p.indent(depth) + "// o" + strconv.Itoa(p.ncomment) + "\n")
	case 5:
		p.ncomment++
		p.sb.WriteString("\n" + p.indent(depth) + "// o" + strconv.Itoa(p.ncomment) + "\n\n")
	}
}

func (p *Printer) line(depth int, text string) {
	p.sb.WriteString(p.indent(depth) + text + p.eol())
}

func (p *Printer) stmts(ss []Stmt, depth int) {
	for i, s := range ss {
		if i > 0 {
			p.vertical(depth, "between")
		}
		p.stmt(s, depth)
	}
}

func (p *Printer) block(ss []Stmt, depth int) {
	p.vertical(depth, "block-start")
	p.stmts(ss, depth)
	p.vertical(depth, "block-end")
}

func (p *Printer) params(ps []Param, variadic bool) string {
	var sb strings.Builder
	for _, pa := range ps {
		sb.WriteString(p.pick("ws-list-sep", " ", "  ", "\t") + pa.Name + ":" + pa.T.String())
	}
	if variadic {
		sb.WriteString("...")
	}
	return sb.String()
}

func (p *Printer) stmt(s Stmt, depth int) {
	switch v := s.(type) {
	case TypedDecl:
		p.line(depth, v.Name+":"+v.T.String())
	case InferDecl:
		p.line(depth, v.Name+p.pick("ws-assign", " ", "", "  ", "\t")+":="+p.pick("ws-assign", " ", "", "  ", "\t")+p.top(v.X))
	case Assign:
		p.line(depth, p.expr(v.Target, true)+p.pick("ws-assign", " ", "", "  ", "\t")+"="+p.pick("ws-assign", " ", "", "  ", "\t")+p.top(v.X))
	case CallStmt:
		p.line(depth, p.call(v.C))
	case If:
		for i, c := range v.Conds {
			kw := "if"
			if i > 0 {
				kw = "else" + p.pick("ws-kw", " ", "  ", "\t") + "if"
			}
			p.line(depth, kw+p.pick("ws-kw", " ", "  ", "\t")+p.top(c))
			p.block(v.Blocks[i], depth+1)
		}
		if v.Else != nil {
			p.line(depth, "else")
			p.block(v.Else, depth+1)
		}
		p.line(depth, "end")
	case While:
		p.line(depth, "while"+p.pick("ws-kw", " ", "  ", "\t")+p.top(v.Cond))
		p.block(v.Body, depth+1)
		p.line(depth, "end")
	case For:
		h := "for" + p.pick("ws-kw", " ", "  ", "\t")
		if v.Var != "" {
			h += v.Var + p.pick("ws-assign", " ", "", "  ") + ":=" + p.pick("ws-assign", " ", "", "  ")
		}
		h += "range"
		for _, r := range v.Range {
			h += p.pick("ws-list-sep", " ", "  ", "\t") + p.expr(r, true)
		}
		p.line(depth, h)
		p.block(v.Body, depth+1)
		p.line(depth, "end")
	case Break:
		p.line(depth, "break")
	case Return:
		if v.X == nil {
			p.line(depth, "return")
		} else {
			p.line(depth, "return"+p.pick("ws-kw", " ", "  ", "\t")+p.top(v.X))
		}
	case Func:
		h := "func" + p.pick("ws-kw", " ", "  ", "\t") + v.Name
		if v.Ret != nil {
			h += ":" + v.Ret.String()
		}
		h += p.params(v.Params, v.Variadic)
		p.line(depth, h)
		p.block(v.Body, depth+1)
		p.line(depth, "end")
	case On:
		p.line(depth, "on"+p.pick("ws-kw", " ", "  ", "\t")+v.Name+p.params(v.Params, false))
		p.block(v.Body, depth+1)
		p.line(depth, "end")
	case Comment:
		p.sb.WriteString(p.indent(depth) + "// " + v.Text + "\n")
	case Blank:
		p.sb.WriteString("\n")
	case Raw:
		for _, l := range strings.Split(strings.TrimSuffix(v.Text, "\n"), "\n") {
			p.sb.WriteString(strings.Repeat("    ", depth) + l + "\n")
		}
	default:
		panic("pt.Printer: unknown statement")
	}
}
