// Package astconv converts /repo's parser AST into pt trees. It is used only to feed
// existing Evy source (documentation examples, seeds) to the reference models; no oracle
// depends on it for generated programs.
package astconv

import (
	"fmt"

	"evylang.dev/evy/pkg/parser"
	"verif/mc/pt"
)

// Type converts a parser type.
func Type(t *parser.Type) *pt.Type {
	if t == nil {
		return nil
	}
	switch t.Name {
	case parser.NUM:
		return pt.TNum
	case parser.STRING:
		return pt.TStr
	case parser.BOOL:
		return pt.TBool
	case parser.ANY:
		return pt.TAny
	case parser.NONE:
		return pt.TNone
	case parser.ARRAY:
		if t.Sub == nil || t.Sub.Name == parser.NONE {
			return pt.TEArr
		}
		return pt.ArrOf(Type(t.Sub))
	case parser.MAP:
		if t.Sub == nil || t.Sub.Name == parser.NONE {
			return pt.TEMap
		}
		return pt.MapOf(Type(t.Sub))
	}
	panic("astconv: type")
}

// Prog converts a program.
func Prog(p *parser.Program) (out *pt.Prog, err error) {
	defer func() {
		if r := recover(); r != nil {
			err = fmt.Errorf("astconv: %v", r)
		}
	}()
	return &pt.Prog{Stmts: stmts(p.Statements)}, nil
}

func stmts(ns []parser.Node) []pt.Stmt {
	var out []pt.Stmt
	for _, n := range ns {
		if s := stmt(n); s != nil {
			out = append(out, s)
		}
	}
	return out
}

func params(vs []*parser.Var) []pt.Param {
	var out []pt.Param
	for _, v := range vs {
		out = append(out, pt.Param{Name: v.Name, T: Type(v.T)})
	}
	return out
}

func stmt(n parser.Node) pt.Stmt {
	switch v := n.(type) {
	case *parser.EmptyStmt:
		return nil
	case *parser.TypedDeclStmt:
		return pt.TypedDecl{Name: v.Decl.Var.Name, T: Type(v.Decl.Var.T)}
	case *parser.InferredDeclStmt:
		return pt.InferDecl{Name: v.Decl.Var.Name, X: expr(v.Decl.Value)}
	case *parser.AssignmentStmt:
		return pt.Assign{Target: expr(v.Target), X: expr(v.Value)}
	case *parser.FuncCallStmt:
		return pt.CallStmt{C: call(v.FuncCall)}
	case *parser.ReturnStmt:
		if v.Value == nil {
			return pt.Return{}
		}
		return pt.Return{X: expr(v.Value)}
	case *parser.BreakStmt:
		return pt.Break{}
	case *parser.IfStmt:
		s := pt.If{}
		s.Conds = append(s.Conds, expr(v.IfBlock.Condition))
		s.Blocks = append(s.Blocks, stmts(v.IfBlock.Block.Statements))
		for _, b := range v.ElseIfBlocks {
			s.Conds = append(s.Conds, expr(b.Condition))
			s.Blocks = append(s.Blocks, stmts(b.Block.Statements))
		}
		if v.Else != nil {
			s.Else = stmts(v.Else.Statements)
			if s.Else == nil {
				s.Else = []pt.Stmt{}
			}
		}
		return s
	case *parser.WhileStmt:
		return pt.While{Cond: expr(v.Condition), Body: stmts(v.Block.Statements)}
	case *parser.ForStmt:
		s := pt.For{Body: stmts(v.Block.Statements)}
		if v.LoopVar != nil {
			s.Var = v.LoopVar.Name
		}
		if sr, ok := v.Range.(*parser.StepRange); ok {
			if sr.Start != nil {
				s.Range = append(s.Range, expr(sr.Start))
			}
			s.Range = append(s.Range, expr(sr.Stop))
			if sr.Step != nil {
				s.Range = append(s.Range, expr(sr.Step))
			}
		} else {
			s.Range = []pt.Expr{expr(v.Range)}
		}
		return s
	case *parser.FuncDefStmt:
		f := pt.Func{Name: v.Name, Body: stmts(v.Body.Statements)}
		if v.ReturnType != nil && v.ReturnType.Name != parser.NONE {
			f.Ret = Type(v.ReturnType)
		}
		if v.VariadicParam != nil {
			f.Variadic = true
			f.Params = []pt.Param{{Name: v.VariadicParam.Name, T: Type(v.VariadicParam.T)}}
		} else {
			f.Params = params(v.Params)
		}
		return f
	case *parser.EventHandlerStmt:
		return pt.On{Name: v.Name, Params: params(v.Params), Body: stmts(v.Body.Statements)}
	}
	panic(fmt.Sprintf("statement %T", n))
}

func call(c *parser.FuncCall) pt.Call {
	out := pt.Call{Name: c.Name}
	for _, a := range c.Arguments {
		out.Args = append(out.Args, expr(a))
	}
	return out
}

func expr(n parser.Node) pt.Expr {
	switch v := n.(type) {
	case *parser.NumLiteral:
		return pt.NumLit{V: v.Value}
	case *parser.StringLiteral:
		return pt.StrLit{V: v.Value}
	case *parser.BoolLiteral:
		return pt.BoolLit{V: v.Value}
	case *parser.Var:
		return pt.Var{Name: v.Name}
	case *parser.Any:
		return expr(v.Value)
	case *parser.GroupExpression:
		return pt.Group{X: expr(v.Expr)}
	case *parser.UnaryExpression:
		return pt.Unary{Op: v.Op.String(), X: expr(v.Right)}
	case *parser.BinaryExpression:
		return pt.Binary{Op: v.Op.String(), L: expr(v.Left), R: expr(v.Right)}
	case *parser.IndexExpression:
		return pt.Index{X: expr(v.Left), I: expr(v.Index)}
	case *parser.SliceExpression:
		s := pt.Slice{X: expr(v.Left)}
		if v.Start != nil {
			s.Lo = expr(v.Start)
		}
		if v.End != nil {
			s.Hi = expr(v.End)
		}
		return s
	case *parser.DotExpression:
		return pt.Dot{X: expr(v.Left), Key: v.Key}
	case *parser.TypeAssertion:
		return pt.Assert{X: expr(v.Left), T: Type(v.T)}
	case *parser.FuncCall:
		return call(v)
	case *parser.ArrayLiteral:
		a := pt.ArrLit{}
		for _, e := range v.Elements {
			a.Els = append(a.Els, expr(e))
		}
		return a
	case *parser.MapLiteral:
		m := pt.MapLit{}
		for _, k := range v.Order {
			m.Keys = append(m.Keys, k)
			m.Vals = append(m.Vals, expr(v.Pairs[k]))
		}
		return m
	}
	panic(fmt.Sprintf("expression %T", n))
}
