// Package corpus holds hand-written seed programs (valid Evy covering every
// statement and expression form) and extracts the documented examples.
package corpus

import (
	"os"
	"path/filepath"
	"regexp"
	"strings"
)

// Seeds are valid programs, smallest first.
var Seeds = []string{
	"print 1\n",
	"x := 1\nprint x\n",
	"x:num\nprint x\n",
	"x := 1\nx = x + 2\nprint x\n",
	"print \"a\" 2 true\n",
	"a := [1 2 3]\nprint a[0] a[-1] a[1:2]\n",
	"m := {a:1 b:2}\nprint m.a m[\"b\"]\n",
	"if true\n    print 1\nend\n",
	"x := 2\nif x > 1\n    print 1\nelse if x > 0\n    print 2\nelse\n    print 3\nend\n",
	"x := 0\nwhile x < 3\n    x = x + 1\nend\nprint x\n",
	"for i := range 3\n    print i\nend\n",
	"for range 2\n    print \"x\"\nend\n",
	"for i := range 1 10 3\n    print i\nend\n",
	"for e := range [1 2]\n    print e\nend\n",
	"for c := range \"ab\"\n    print c\nend\n",
	"m := {a:1}\nfor k := range m\n    print k m[k]\nend\n",
	"for i := range 5\n    if i == 2\n        break\n    end\n    print i\nend\n",
	"func f\n    print 1\nend\nf\n",
	"func add:num a:num b:num\n    return a + b\nend\nprint (add 1 2)\n",
	"func v args:any...\n    print (len args)\nend\nv 1 \"a\"\n",
	"func g:string\n    return \"g\"\nend\nprint (g)\n",
	"f\nfunc f\n    return\nend\n",
	"on key k:string\n    print k\nend\n",
	"on down _:num y:num\n    print y\nend\n",
	"on animate\n    print 1\nend\n",
	"x:any\nx = 1\nprint x.(num)+1\n",
	"x:[]any\nx = [1 \"a\"]\nprint x (typeof x[0])\n",
	"print -1 !true (1+2)*3 ((1 + 2) * 3)\n",
	"print 1+2*3 10%3 7/2 1-1\n",
	"print \"a\"+\"b\" \"a\"<\"b\" 1<=2 2>=1 1!=2 1==1\n",
	"print (true and false or true) (false or !true)\n",
	"print [1]+[2] [0]*3 []+[1]\n",
	"a := [\n    1\n    2 // two\n]\nprint a\n",
	"m := {\n    a:1\n    b:2\n}\nprint m\n",
	"// comment\nprint 1 // trailing\n\n\nprint 2\n",
	"s := \"héllo\"\nprint s[1] s[1:3] (len s)\n",
	"m := {for:1 end:2}\nprint m.for m.end\n",
	"a := [[1 2] [3]]\na[0][1] = 5\nprint a\n",
	"m := {a:{b:1}}\nm.a.b = 2\nprint m\n",
	"n := str2num \"1\"\nprint n err errmsg\n",
	"func fib:num n:num\n    if n < 2\n        return n\n    end\n    return (fib n-1) + (fib n-2)\nend\nprint (fib 5)\n",
	"x := 1\nfor range 1\n    x := true\n    print x\nend\nprint x\n",
	"arr:[]{}any\narr = [{a:1} {b:[1 2 {}]} {}]\nprint (typeof arr)\n",
	"test 1 1\ntest true\n",
	"printf \"%v %s\\n\" 1 \"a\"\n",
	"a := [1 2 3]\nprint a[ 1 ] a[1 : 2] (a[0] + 1)\n",
	"move 10 20\nline 30 40\nrect 1 2\ncircle 3\ncolor \"red\"\n",
	"x := 1\nprint \"x\" x // c1\n// c2\nif x == 1 // c3\n    print 2 // c4\nelse // c5\n    print 3\nend // c6\n",
	"while true\n    break\nend\n",
	"func f:num\n    while true\n        return 1\n    end\n    return 2\nend\nprint (f)\n",
	"x := [1 2 3][1]\ny := \"abc\"[1:]\nz := {a:1}.a\nprint x y z\n",
	"del {} \"a\"\nprint (has {a:1} \"a\") (join [1 2] \",\") (split \"a b\" \" \")\n",
	"on down x:num y:num\n    print x y\nend\non input id:string val:string\n    print id val\nend\nfunc pr a:num b:string c:bool\n    print a b c\nend\npr 1 \"s\" true\n",
	"func sign:string n:num\n    if n > 0\n        return \"p\"\n    else if n < 0\n        return \"n\"\n    else\n        return \"z\"\n    end\nend\nprint (sign 1) (sign -1) (sign 0)\n",
	"func pick:num a:bool b:bool\n    if a\n        if b\n            return 1\n        else\n            return 2\n        end\n    else\n        return 3\n    end\nend\nprint (pick true false)\n",
}

var blockRe = regexp.MustCompile("(?s)```evy\n(.*?)```")

// DocBlocks returns the ```evy code blocks of the markdown files under /repo/docs.
func DocBlocks(repo string) []string {
	var out []string
	for _, f := range []string{"spec.md", "builtins.md", "syntax-by-example.md"} {
		b, err := os.ReadFile(filepath.Join(repo, "docs", f))
		if err != nil {
			continue
		}
		for _, m := range blockRe.FindAllStringSubmatch(string(b), -1) {
			out = append(out, m[1])
		}
	}
	return out
}

// Example is a documented program with its documented output.
type Example struct {
	File, Src, Input, Output, Err string
	Line                          int
}

// DocExamples returns evy blocks followed by evy:output / evy:err (optionally evy:input) blocks.
func DocExamples(repo string) []Example {
	var out []Example
	for _, f := range []string{"spec.md", "builtins.md"} {
		b, err := os.ReadFile(filepath.Join(repo, "docs", f))
		if err != nil {
			continue
		}
		lines := strings.Split(string(b), "\n")
		type blk struct {
			kind, text string
			line       int
		}
		var blks []blk
		for i := 0; i < len(lines); i++ {
			l := strings.TrimSpace(lines[i])
			if strings.HasPrefix(l, "```") && len(l) > 3 {
				kind := l[3:]
				var body []string
				j := i + 1
				for ; j < len(lines) && strings.TrimSpace(lines[j]) != "```"; j++ {
					body = append(body, lines[j])
				}
				blks = append(blks, blk{kind, strings.Join(body, "\n") + "\n", i + 1})
				i = j
			}
		}
		for i, bl := range blks {
			if bl.kind != "evy" {
				continue
			}
			ex := Example{File: f, Src: bl.text, Line: bl.line}
			ok := false
			for j := i + 1; j < len(blks) && j <= i+3; j++ {
				switch blks[j].kind {
				case "evy:input":
					ex.Input = blks[j].text
				case "evy:output":
					ex.Output = blks[j].text
					ok = true
				case "evy:err":
					ex.Err = blks[j].text
					ok = true
				default:
					j = len(blks)
				}
			}
			if ok {
				out = append(out, ex)
			}
		}
	}
	return out
}

// RepoDir is the tree under check: /repo unless VERIF_REPO names a scratch copy.
func RepoDir() string {
	if d := os.Getenv("VERIF_REPO"); d != "" {
		return d
	}
	return "/repo"
}
