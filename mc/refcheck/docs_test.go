package refcheck

import (
	"strings"
	"testing"

	"verif/mc/astconv"
	"verif/mc/corpus"
	"verif/mc/ref"
	"verif/mc/run"
)

// TestDocs validates the reference interpreter against the documentation: every evy block
// with a documented output must be reproduced by the reference.
func TestDocs(t *testing.T) {
	exs := corpus.DocExamples(corpus.RepoDir())
	ok, skipped := 0, 0
	for _, ex := range exs {
		prog, errs, gp := run.Parse(ex.Src)
		if prog == nil {
			t.Logf("%s:%d does not parse: %v %s", ex.File, ex.Line, errs, gp)
			skipped++
			continue
		}
		p, err := astconv.Prog(prog)
		if err != nil {
			t.Errorf("%s:%d conv: %v", ex.File, ex.Line, err)
			continue
		}
		var inputs []string
		if ex.Input != "" {
			inputs = strings.Split(strings.TrimSuffix(ex.Input, "\n"), "\n")
		}
		out := ref.RunProg(p, ref.Opts{Inputs: inputs})
		if out.Class == "latitude" || strings.Contains(ex.Src, "rand") || strings.Contains(ex.Src, "sleep") && false {
			skipped++
			continue
		}
		var sb strings.Builder
		for _, e := range out.Trace {
			if strings.HasPrefix(e, "print:") {
				sb.WriteString(e[6:])
			}
			if e == "cls" {
				sb.Reset()
			}
		}
		got := sb.String()
		want := ex.Output
		if ex.Err != "" {
			continue
		}
		if strings.TrimRight(got, "\n") != strings.TrimRight(want, "\n") {
			t.Errorf("%s:%d reference output differs (class %s %s)\nsrc:\n%s\nwant:\n%s\ngot:\n%s", ex.File, ex.Line, out.Class, out.Msg, ex.Src, want, got)
			continue
		}
		ok++
	}
	t.Logf("documented examples: %d, reproduced by the reference: %d, skipped: %d", len(exs), ok, skipped)
	if ok < 40 {
		t.Errorf("too few documented examples reproduced: %d", ok)
	}
}
