//go:build !seam

package seam

// SetChooser is a no-op without the seam overlay.
func SetChooser(f func(n int, site string) int) {}

// SetOrderHook is a no-op without the seam overlay.
func SetOrderHook(f func(n int, site string) []int) {}

// CountHits is a no-op without the seam overlay.
func CountHits(on bool) map[string]int { return map[string]int{} }

// Enabled reports that the binary was built with the seam overlay.
const Enabled = false
