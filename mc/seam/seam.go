//go:build seam

// Package seam gives checks access to the map-iteration seam injected by cmd/seamgen.
package seam

import "evylang.dev/evy/pkg/zzseam"

// SetChooser installs (or removes, with nil) the map-order chooser.
func SetChooser(f func(n int, site string) int) { zzseam.Chooser = f }

// SetOrderHook installs (or removes, with nil) the per-range order hook.
func SetOrderHook(f func(n int, site string) []int) { zzseam.OrderHook = f }

// CountHits enables per-site hit counting and returns the hit map.
func CountHits(on bool) map[string]int { zzseam.CountHits = on; return zzseam.Hits }

// Enabled reports that the binary was built with the seam overlay.
const Enabled = true
