// seamgen rewrites every `for ... range <map>` statement of the evy packages so that the
// iteration order is decided by the virtual package evylang.dev/evy/pkg/zzseam, and writes a
// `go build -overlay` file. /repo is never modified. A map range it cannot rewrite is a hard error.
package main

import (
	"encoding/json"
	"flag"
	"fmt"
	"go/ast"
	"go/token"
	"go/types"
	"os"
	"path/filepath"
	"sort"
	"strings"

	"golang.org/x/tools/go/packages"
)

type edit struct {
	off, end int
	text     string
}

func main() {
	repo := flag.String("repo", "/repo", "repository root")
	out := flag.String("out", "", "output directory for rewritten files and overlay.json")
	seamSrc := flag.String("seamsrc", "", "path of zzseam.go.txt")
	flag.Parse()
	if *out == "" || *seamSrc == "" {
		fmt.Fprintln(os.Stderr, "usage: seamgen -out dir -seamsrc file")
		os.Exit(2)
	}
	os.MkdirAll(*out, 0o755)
	cfg := &packages.Config{
		Mode: packages.NeedName | packages.NeedFiles | packages.NeedSyntax | packages.NeedTypes | packages.NeedTypesInfo | packages.NeedCompiledGoFiles | packages.NeedImports | packages.NeedDeps,
		Dir:  *repo,
		Env:  append(os.Environ(), "GOFLAGS=-mod=mod", "GOPROXY=off", "GOSUMDB=off", "GOTOOLCHAIN=local"),
	}
	pkgs, err := packages.Load(cfg, "./pkg/lexer", "./pkg/parser", "./pkg/evaluator", "./pkg/bytecode", "./pkg/cli", "./pkg/cli/svg")
	if err != nil {
		fmt.Fprintln(os.Stderr, "seamgen: load:", err)
		os.Exit(1)
	}
	overlay := map[string]string{}
	var sites []string
	bad := 0
	for _, pkg := range pkgs {
		for _, e := range pkg.Errors {
			fmt.Fprintln(os.Stderr, "seamgen: package error:", e)
			bad++
		}
		for i, file := range pkg.Syntax {
			fname := pkg.CompiledGoFiles[i]
			if strings.HasSuffix(fname, "_test.go") {
				continue
			}
			src, err := os.ReadFile(fname)
			if err != nil {
				fmt.Fprintln(os.Stderr, err)
				os.Exit(1)
			}
			var edits []edit
			ast.Inspect(file, func(n ast.Node) bool {
				rs, ok := n.(*ast.RangeStmt)
				if !ok {
					return true
				}
				t := pkg.TypesInfo.TypeOf(rs.X)
				if t == nil {
					return true
				}
				if _, isMap := t.Underlying().(*types.Map); !isMap {
					return true
				}
				pos := pkg.Fset.Position(rs.Pos())
				rel, _ := filepath.Rel(*repo, fname)
				site := fmt.Sprintf("%s:%d", rel, pos.Line)
				if rs.Key == nil && rs.Value == nil {
					return true // `for range m`: order unobservable
				}
				if !pure(rs.X) {
					fmt.Fprintf(os.Stderr, "seamgen: %s: range operand is not a pure expression; cannot instrument\n", site)
					bad++
					return true
				}
				if rs.Tok != token.DEFINE {
					fmt.Fprintf(os.Stderr, "seamgen: %s: range with '=' is not supported\n", site)
					bad++
					return true
				}
				off := func(p token.Pos) int { return pkg.Fset.Position(p).Offset }
				x := string(src[off(rs.X.Pos()):off(rs.X.End())])
				keyName := "zzk"
				if id, ok := rs.Key.(*ast.Ident); ok && id.Name != "_" {
					keyName = id.Name
				}
				hdr := fmt.Sprintf("for _, %s := range zzseam.Keys(%s, %q) ", keyName, x, site)
				body := ""
				if rs.Value != nil {
					if id, ok := rs.Value.(*ast.Ident); !ok || id.Name != "_" {
						v := string(src[off(rs.Value.Pos()):off(rs.Value.End())])
						body = fmt.Sprintf(" %s, zzok := %s[%s]; if !zzok { continue }; _ = %s;", v, x, keyName, v)
					}
				}
				// replace from `for` up to and including the `{`
				edits = append(edits, edit{off(rs.For), off(rs.Body.Lbrace) + 1, hdr + "{" + body})
				sites = append(sites, site)
				return true
			})
			if len(edits) == 0 {
				continue
			}
			sort.Slice(edits, func(a, b int) bool { return edits[a].off > edits[b].off })
			s := string(src)
			for _, e := range edits {
				s = s[:e.off] + e.text + s[e.end:]
			}
			// add the import right after the package clause
			pe := pkg.Fset.Position(file.Name.End()).Offset
			s = s[:pe] + "; import zzseam \"evylang.dev/evy/pkg/zzseam\"" + s[pe:]
			rel, _ := filepath.Rel(*repo, fname)
			dst := filepath.Join(*out, strings.ReplaceAll(rel, "/", "__"))
			if err := os.WriteFile(dst, []byte(s), 0o644); err != nil {
				fmt.Fprintln(os.Stderr, err)
				os.Exit(1)
			}
			overlay[fname] = dst
		}
	}
	if bad > 0 {
		os.Exit(1)
	}
	seamDst := filepath.Join(*out, "zzseam.go")
	b, err := os.ReadFile(*seamSrc)
	if err != nil {
		fmt.Fprintln(os.Stderr, err)
		os.Exit(1)
	}
	os.WriteFile(seamDst, b, 0o644)
	overlay[filepath.Join(*repo, "pkg/zzseam/zzseam.go")] = seamDst
	ob, _ := json.MarshalIndent(map[string]any{"Replace": overlay}, "", " ")
	os.WriteFile(filepath.Join(*out, "overlay.json"), ob, 0o644)
	sort.Strings(sites)
	sb, _ := json.Marshal(sites)
	os.WriteFile(filepath.Join(*out, "sites.json"), sb, 0o644)
	fmt.Printf("seamgen: %d map-range sites instrumented\n", len(sites))
}

// pure reports whether e is an identifier / selector / index / deref chain without calls.
func pure(e ast.Expr) bool {
	switch v := e.(type) {
	case *ast.Ident:
		return true
	case *ast.SelectorExpr:
		return pure(v.X)
	case *ast.StarExpr:
		return pure(v.X)
	case *ast.ParenExpr:
		return pure(v.X)
	case *ast.IndexExpr:
		return pure(v.X) && pure(v.Index)
	case *ast.BasicLit:
		return true
	}
	return false
}
