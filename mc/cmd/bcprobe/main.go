//go:build verif

// Command bcprobe compiles and runs an Evy source file on the bytecode VM and prints the globals (debugging aid).
package main

import (
	"fmt"
	"os"

	"evylang.dev/evy/pkg/bytecode"
	"verif/mc/run"
)

func main() {
	b, _ := os.ReadFile(os.Args[1])
	prog, errs, gp := run.Parse(string(b))
	if prog == nil {
		fmt.Println("parse:", errs, gp)
		return
	}
	comp := bytecode.NewCompiler()
	if err := comp.Compile(prog); err != nil {
		fmt.Println("compile:", err)
		return
	}
	bc := comp.Bytecode()
	fmt.Println("constants:", len(bc.Constants))
	vm := bytecode.NewVM(bc)
	fmt.Println("run:", vm.Run())
	fmt.Println(bytecode.VerifGlobals(comp, vm))
}
