// Command refprobe prints the reference checker's verdict and the reference run of an Evy source file (debugging aid).
package main

import (
	"fmt"
	"os"

	"verif/mc/astconv"
	"verif/mc/ref"
	"verif/mc/run"
)

func main() {
	b, err := os.ReadFile(os.Args[1])
	if err != nil {
		panic(err)
	}
	prog, errs, gp := run.Parse(string(b))
	fmt.Println("parser:", errs, gp)
	if prog == nil {
		return
	}
	p, err := astconv.Prog(prog)
	if err != nil {
		fmt.Println("astconv:", err)
		return
	}
	cerr := ref.Check(p)
	fmt.Println("ref.Check:", cerr)
	if cerr == nil {
		o := ref.RunProg(p, ref.Opts{})
		fmt.Println("ref.Run:", o.Class, o.Msg, run.Show(o.Trace))
	}
	io := run.Run(string(b), run.Opts{})
	fmt.Println("real:", io.Class, io.Err, run.Show(io.Trace))
}
