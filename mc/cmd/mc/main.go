// mc is the single model-checking binary; `mc <property-id> -tier quick|thorough`.
package main

import (
	"verif/mc/fw"

	_ "verif/mc/checks"
)

func main() { fw.Main() }
