// Package fw is the shared model-checking framework: a stateless, replay-based
// explorer over choice sequences with deviation bounding (explore.go), the
// worker/supervisor machinery that shards an enumeration over processes, fences
// resources, journals the running case so that process deaths and hangs are
// attributed to an input (worker.go, super.go), and evidence/known-finding
// handling (evidence.go).
package fw

import "fmt"

// Ctx is handed to a run function; every source of variation is a Choose call.
// Choice 0 is the default answer.
type Ctx struct {
	prefix []int
	choice []int
	ns     []int
	labels []string
	// recorded on first exploration of a prefix to detect divergence
	wantNs     []int
	wantLabels []string
}

// Choose returns a value in [0,n). While replaying the forced prefix it returns the forced
// choice (an out-of-range forced choice or a changed label/arity is a hard error:
// divergence means nondeterminism the harness does not own); afterwards it returns 0.
func (c *Ctx) Choose(n int, label string) int {
	if n <= 0 {
		panic(fmt.Sprintf("explore: Choose(%d,%q)", n, label))
	}
	i := len(c.choice)
	v := 0
	if i < len(c.prefix) {
		v = c.prefix[i]
		if v >= n {
			panic(Divergence{fmt.Sprintf("forced choice %d out of range %d at %d (%s)", v, n, i, label)})
		}
		if i < len(c.wantNs) && (c.wantNs[i] != n || c.wantLabels[i] != label) {
			panic(Divergence{fmt.Sprintf("choice point %d changed: was %s/%d now %s/%d", i, c.wantLabels[i], c.wantNs[i], label, n)})
		}
	}
	c.choice = append(c.choice, v)
	c.ns = append(c.ns, n)
	c.labels = append(c.labels, label)
	return v
}

// Pick is Choose over a slice.
func Pick[T any](c *Ctx, xs []T, label string) T { return xs[c.Choose(len(xs), label)] }

// Choices returns the choices made so far (a copy).
func (c *Ctx) Choices() []int { return append([]int(nil), c.choice...) }

// Deviations returns the number of non-default choices made so far.
func (c *Ctx) Deviations() int {
	d := 0
	for _, v := range c.choice {
		if v != 0 {
			d++
		}
	}
	return d
}

// Divergence is the panic value for a replay that did not follow its prefix.
type Divergence struct{ Msg string }

func (d Divergence) Error() string { return "HARNESS-NONDETERMINISM: " + d.Msg }

// Stats of one exploration.
type Stats struct {
	Executions int64
	MaxDepth   int
	Bound      int // deviation bound used (-1 = unbounded)
}

// Explore enumerates all choice sequences of run with at most bound non-default
// choices (bound<0: all sequences), depth-first in lexicographic order, by
// re-running run with a forced prefix (stateless exploration). visit is called
// after every execution. Returning false from visit stops the exploration.
func Explore(bound int, run func(*Ctx), visit func(*Ctx) bool) Stats {
	st := Stats{Bound: bound}
	var prefix, wantNs []int
	var wantLabels []string
	for {
		c := &Ctx{prefix: prefix, wantNs: wantNs, wantLabels: wantLabels}
		run(c)
		if len(c.choice) < len(prefix) {
			panic(Divergence{fmt.Sprintf("execution made %d choices, prefix has %d", len(c.choice), len(prefix))})
		}
		st.Executions++
		if len(c.choice) > st.MaxDepth {
			st.MaxDepth = len(c.choice)
		}
		if visit != nil && !visit(c) {
			return st
		}
		// next prefix: the deepest position that can still be incremented within the bound
		next := -1
		nz := 0
		nzBefore := make([]int, len(c.choice)+1)
		for i, v := range c.choice {
			nzBefore[i] = nz
			if v != 0 {
				nz++
			}
		}
		for i := len(c.choice) - 1; i >= 0; i-- {
			if c.choice[i]+1 >= c.ns[i] {
				continue
			}
			if bound >= 0 && nzBefore[i]+1 > bound {
				continue
			}
			next = i
			break
		}
		if next < 0 {
			return st
		}
		prefix = append(append([]int(nil), c.choice[:next]...), c.choice[next]+1)
		wantNs = append([]int(nil), c.ns[:next+1]...)
		wantLabels = append([]string(nil), c.labels[:next+1]...)
	}
}

// Replay runs run once with the given forced choices.
func Replay(choices []int, run func(*Ctx)) *Ctx {
	c := &Ctx{prefix: choices}
	run(c)
	return c
}
