package fw

import (
	"crypto/sha256"
	"encoding/hex"
	"encoding/json"
	"flag"
	"fmt"
	"os"
	"os/exec"
	"path/filepath"
	"regexp"
	"runtime"
	"runtime/pprof"
	"sort"
	"strconv"
	"strings"
	"sync"
	"time"
)

// Check describes one property check.
type Check struct {
	ID          string // property id, e.g. "C03"
	Level       string // evidence level / manifest category
	Rule        string // how cases are enumerated and what makes one non-trivial
	Assumptions []string
	TrustedBase []string
	// Run enumerates the cases of the tier and calls w.Case for each.
	Run func(w *Worker)
	// Replay re-executes one violation input without the explorer.
	Replay func(sub string, input json.RawMessage) *Violation
	// Vacuity inspects the merged result and returns an error text if the enumeration degenerated.
	Vacuity func(m *Result) string
	// Watchdog is the per-case hang detector threshold (default 180 s).
	Watchdog time.Duration
	// Deadline is the internal per-tier deadline (quick, thorough).
	DeadlineQuick, DeadlineThorough time.Duration
	// Resumable: every unit of work goes through Worker.Case/RunCase, so a shard restarted after a process
	// death can skip the cases a checkpoint already covers.
	Resumable bool
	// Serial forces a single worker (checks that drive external processes shard themselves).
	Serial bool
	// Extra lets a check add keys to coverage.
	Extra func(m *Result, cov map[string]any)
}

var registry = map[string]*Check{}

// Register adds a check.
func Register(c *Check) { registry[c.ID] = c }

// VerifDir is the /verif root (parent of the binary's directory's parent by default).
var VerifDir = "/verif"

// Main is the entry point of the mc binary.
func Main() {
	fs := flag.NewFlagSet("mc", flag.ExitOnError)
	tier := fs.String("tier", envOr("VERIF_TIER", "quick"), "quick|thorough")
	shard := fs.Int("shard", -1, "worker shard index (internal)")
	nshards := fs.Int("nshards", 0, "number of shards")
	out := fs.String("out", "", "worker result file (internal)")
	journal := fs.String("journal", "", "worker journal file (internal)")
	skipf := fs.String("skip", "", "worker skip file (internal)")
	replay := fs.String("replay", "", "replay a violation file")
	deadline := fs.Int64("deadline", 0, "unix seconds of internal deadline (internal)")
	resume := fs.Int64("resume", 0, "skip the first N owned cases (internal)")
	if len(os.Args) < 2 {
		fmt.Fprintln(os.Stderr, "usage: mc <check-id> [-tier quick|thorough] [-replay file]")
		os.Exit(2)
	}
	id := os.Args[1]
	fs.Parse(os.Args[2:]) //nolint:errcheck
	if v := os.Getenv("VERIF_DIR"); v != "" {
		VerifDir = v
	}
	c := registry[id]
	if c == nil {
		fmt.Fprintf(os.Stderr, "unknown check %q; have %v\n", id, SortedKeys(registry))
		os.Exit(2)
	}
	seed, _ := strconv.ParseInt(envOr("VERIF_SEED", "1"), 10, 64)
	switch {
	case *replay != "":
		os.Exit(doReplay(c, *replay))
	case *shard >= 0:
		runWorker(c, *tier, *shard, *nshards, seed, *out, *journal, *skipf, *deadline, *resume)
	default:
		os.Exit(supervise(c, *tier, seed))
	}
}

// outDir is where evidence and replays go: VerifDir, unless VERIF_OUT redirects them (trial runs against a
// scratch copy of the repository must not overwrite the evidence of the real tree).
func outDir() string {
	if d := os.Getenv("VERIF_OUT"); d != "" {
		return d
	}
	return VerifDir
}

func envOr(k, d string) string {
	if v := os.Getenv(k); v != "" {
		return v
	}
	return d
}

func runWorker(c *Check, tier string, shard, n int, seed int64, out, journal, skipf string, deadline int64, resume int64) {
	fence()
	if os.Getenv("VERIF_GOMAXPROCS") == "" {
		runtime.GOMAXPROCS(2)
	}
	skip := map[string]string{}
	if skipf != "" {
		if b, err := os.ReadFile(skipf); err == nil {
			json.Unmarshal(b, &skip) //nolint:errcheck
		}
	}
	var dl time.Time
	if deadline > 0 {
		dl = time.Unix(deadline, 0)
	}
	w := newWorker(c.ID, tier, shard, n, seed, journal, skip, dl)
	if c.Resumable {
		w.resume, w.ckptPath, w.lastCkpt = resume, out+".ckpt", time.Now()
	}
	if pf := os.Getenv("VERIF_PROFILE"); pf != "" {
		f, _ := os.Create(pf)
		pprof.StartCPUProfile(f) //nolint:errcheck
		defer pprof.StopCPUProfile()
	}
	c.Run(w)
	w.Res.Done = true
	w.writeJournal("")
	if err := w.Res.write(out); err != nil {
		fmt.Fprintln(os.Stderr, "worker: cannot write result:", err)
		os.Exit(3)
	}
}

var evyFrameRe = regexp.MustCompile(`evylang\.dev/evy/(?:learn/)?pkg/(\S+?)\((?:0x[0-9a-f]+|\.\.\.|\)|\{)`)

type shardState struct {
	partials []*Result // checkpoints of earlier incarnations of the shard
	resume   int64
	res      *Result
	skip     map[string]string
	restarts int
	err      string
	elapsed  time.Duration
}

func supervise(c *Check, tier string, seed int64) int {
	start := time.Now()
	n := runtime.NumCPU()
	if v, err := strconv.Atoi(os.Getenv("VERIF_WORKERS")); err == nil && v > 0 {
		n = v
	}
	if c.Serial {
		n = 1
	}
	tmp, err := os.MkdirTemp(filepath.Join(VerifDir, ".build"), "run-"+c.ID+"-")
	if err != nil {
		os.MkdirAll(filepath.Join(VerifDir, ".build"), 0o755) //nolint:errcheck
		tmp, err = os.MkdirTemp(filepath.Join(VerifDir, ".build"), "run-"+c.ID+"-")
		if err != nil {
			fmt.Fprintln(os.Stderr, "cannot create run dir:", err)
			return 2
		}
	}
	defer os.RemoveAll(tmp)
	dl := c.DeadlineQuick
	if tier == "thorough" {
		dl = c.DeadlineThorough
	}
	var deadline int64
	if dl > 0 {
		deadline = start.Add(dl).Unix()
	}
	wd := c.Watchdog
	if wd == 0 {
		wd = 180 * time.Second
	}
	exe, _ := os.Executable()
	states := make([]*shardState, n)
	var wg sync.WaitGroup
	for i := 0; i < n; i++ {
		states[i] = &shardState{skip: map[string]string{}}
		wg.Add(1)
		go func(i int) {
			defer wg.Done()
			st := states[i]
			t0 := time.Now()
			defer func() { st.elapsed = time.Since(t0) }()
			for {
				out := filepath.Join(tmp, fmt.Sprintf("res-%d.json", i))
				jr := filepath.Join(tmp, fmt.Sprintf("journal-%d", i))
				sk := filepath.Join(tmp, fmt.Sprintf("skip-%d.json", i))
				os.Remove(out)
				os.Remove(jr)
				b, _ := json.Marshal(st.skip)
				os.WriteFile(sk, b, 0o644) //nolint:errcheck
				os.Remove(out + ".ckpt")
				cmd := exec.Command(exe, c.ID, "-tier", tier, "-shard", strconv.Itoa(i), "-nshards", strconv.Itoa(n),
					"-out", out, "-journal", jr, "-skip", sk, "-deadline", strconv.FormatInt(deadline, 10), "-resume", strconv.FormatInt(st.resume, 10))
				cmd.Env = append(os.Environ(), "VERIF_SEED="+strconv.FormatInt(seed, 10))
				logf, _ := os.Create(filepath.Join(tmp, fmt.Sprintf("log-%d-%d.txt", i, st.restarts)))
				cmd.Stdout, cmd.Stderr = logf, logf
				if err := cmd.Start(); err != nil {
					st.err = err.Error()
					return
				}
				done := make(chan error, 1)
				go func() { done <- cmd.Wait() }()
				// hang detector: the journal has not moved while the worker consumed more than wd of CPU time
				// (a starved worker on a loaded machine accumulates wall time, not CPU time), or - for a worker that
				// is blocked without using CPU - for 20 x wd of wall time
				hung := false
				var last string
				lastChange := time.Now()
				cpuAtChange := procCPU(cmd.Process.Pid)
			wait:
				for {
					select {
					case <-done:
						break wait
					case <-time.After(2 * time.Second):
						cur, _ := readJournal(jr)
						if cur != last {
							last, lastChange, cpuAtChange = cur, time.Now(), procCPU(cmd.Process.Pid)
						} else if procCPU(cmd.Process.Pid)-cpuAtChange > wd || time.Since(lastChange) > 20*wd {
							hung = true
							cmd.Process.Kill() //nolint:errcheck
							<-done
							break wait
						}
					}
				}
				logf.Close()
				if rb, err := os.ReadFile(out); err == nil && !hung {
					var r Result
					if json.Unmarshal(rb, &r) == nil && r.Done {
						st.res = &r
						return
					}
				}
				if cb, err := os.ReadFile(out + ".ckpt"); err == nil {
					var pr Result
					if json.Unmarshal(cb, &pr) == nil && pr.Seq > st.resume {
						st.partials = append(st.partials, &pr)
						st.resume = pr.Seq
					}
				}
				key, ok := readJournal(jr)
				if strings.HasPrefix(key, progressMark) {
					key = "" // the worker was between cases (enumerating), not inside one
				}
				kind := "process-death"
				if hung {
					kind = "hang"
				}
				lb, _ := os.ReadFile(logf.Name())
				tail := string(lb)
				if len(tail) > 1500 {
					tail = tail[:1500]
				}
				if strings.Contains(tail, "stack overflow") {
					kind = "process-death:stack-overflow"
					// the innermost frame of the code under test tells recursion in user functions from e.g. printing a cyclic value
					set := map[string]bool{}
					for i, m := range evyFrameRe.FindAllStringSubmatch(string(lb), 40) {
						if i < 40 {
							set[m[1]] = true
						}
					}
					if len(set) > 0 {
						kind += ":" + strings.Join(SortedKeys(set), "+")
					}
				} else if strings.Contains(tail, "MEMORY-FENCE") || strings.Contains(tail, "out of memory") || strings.Contains(tail, "cannot allocate memory") {
					kind = "process-death:memory"
				}
				if !ok || key == "" {
					st.err = fmt.Sprintf("worker %d died outside a case (%s): %s", i, kind, tail)
					return
				}
				if _, again := st.skip[key]; again {
					st.err = fmt.Sprintf("worker %d died twice on the same case: %s", i, tail)
					return
				}
				st.skip[key] = kind
				st.restarts++
				if st.restarts > 40 {
					st.err = fmt.Sprintf("worker %d restarted more than 40 times", i)
					return
				}
			}
		}(i)
	}
	wg.Wait()

	merged := &Result{Counters: map[string]int64{}, Outcomes: map[string]int64{}, Exhaustive: true}
	broken := []string{}
	for i, st := range states {
		if st.err != "" {
			broken = append(broken, st.err)
			// a shard that gave up (e.g. restarted too often because very many cases kill or hang the worker) still
			// tells what it saw: its checkpoints, and every case its worker died in - those are violations of the
			// property under check, not only a broken run
			for _, r := range st.partials {
				mergeInto(merged, r)
			}
			for key, kind := range st.skip {
				merged.Violations = append(merged.Violations, Violation{Sub: "process", Signature: kind, What: "the process running this case " + kind, Input: key, Count: 1})
			}
			merged.Exhaustive = false
			continue
		}
		if st.res == nil {
			broken = append(broken, fmt.Sprintf("shard %d produced no result", i))
			continue
		}
		reported := map[string]bool{}
		for _, r := range append(append([]*Result(nil), st.partials...), st.res) {
			mergeInto(merged, r)
			broken = append(broken, r.Internal...)
			for _, v := range r.Violations {
				if k, ok := v.Input.(string); ok && v.Sub == "process" {
					reported[k] = true
				}
			}
		}
		// a case the worker died or hung in becomes a violation when the restarted worker comes to it again; if the deadline
		// ended the enumeration before that, the death is still a fact about the code under check
		for key, kind := range st.skip {
			if !reported[key] {
				merged.Violations = append(merged.Violations, Violation{Sub: "process", Signature: kind, What: "the process running this case " + kind, Input: key, Count: 1})
			}
		}
	}
	if c.Vacuity != nil && len(broken) == 0 {
		if msg := c.Vacuity(merged); msg != "" {
			broken = append(broken, "VACUOUS: "+msg)
		}
	}

	// classify violations against known findings
	known := loadKnown(c.ID)
	bySig := map[string]*Violation{}
	var sigs []string
	for i := range merged.Violations {
		v := &merged.Violations[i]
		v.Property = c.ID
		if old, ok := bySig[v.Signature]; ok {
			old.Count += v.Count
			continue
		}
		bySig[v.Signature] = v
		sigs = append(sigs, v.Signature)
	}
	sort.Strings(sigs)
	nviol := 0
	var knownHit []string
	for _, s := range sigs {
		v := bySig[s]
		if what, ok := known[s]; ok {
			fmt.Printf("KNOWN-FINDING: property=%s %s [%s] (%d cases, e.g. %s)\n", c.ID, what, s, v.Count, oneLine(v.Input))
			knownHit = append(knownHit, s)
			continue
		}
		nviol++
		path := writeReplay(c.ID, v)
		fmt.Printf("VIOLATION property=%s replay=%s\n", c.ID, path)
		fmt.Printf("  signature: %s\n  what: %s\n  input: %s\n  expected: %s\n  observed: %s\n  cases: %d\n",
			v.Signature, v.What, oneLine(v.Input), trunc(v.Expected, 400), trunc(v.Observed, 400), v.Count)
	}
	wall := time.Since(start).Seconds()
	writeEvidence(c, tier, seed, merged, wall, nviol, knownHit, broken)
	if os.Getenv("VERIF_VERBOSE") != "" {
		for i, st := range states {
			fmt.Printf("shard %d: %.1fs restarts=%d\n", i, st.elapsed.Seconds(), st.restarts)
		}
	}
	for _, b := range broken {
		fmt.Printf("BROKEN-CHECK %s: %s\n", c.ID, trunc(b, 2000))
	}
	fmt.Printf("%s tier=%s evaluations=%d distinct=%d nontrivial=%d outcomes=%d exhaustive=%v violations=%d known=%d wall=%.1fs\n",
		c.ID, tier, merged.Evaluations, merged.Distinct, merged.Nontrivial, len(merged.Outcomes), merged.Exhaustive, nviol, len(knownHit), wall)
	if nviol > 0 {
		return 1
	}
	if len(broken) > 0 {
		return 2
	}
	return 0
}

// procCPU returns the CPU time (user+system) a process has consumed so far.
func procCPU(pid int) time.Duration {
	b, err := os.ReadFile(fmt.Sprintf("/proc/%d/stat", pid))
	if err != nil {
		return 0
	}
	// fields after the parenthesised command name; utime and stime are fields 14 and 15 of the line
	str := string(b)
	if i := strings.LastIndex(str, ")"); i >= 0 {
		f := strings.Fields(str[i+1:])
		if len(f) > 13 {
			ut, _ := strconv.ParseInt(f[11], 10, 64)
			st, _ := strconv.ParseInt(f[12], 10, 64)
			return time.Duration(ut+st) * 10 * time.Millisecond
		}
	}
	return 0
}

// mergeInto adds one worker result (final or checkpoint) to the merged result.
func mergeInto(merged, r *Result) {
	merged.Evaluations += r.Evaluations
	merged.Distinct += r.Distinct
	merged.Nontrivial += r.Nontrivial
	for k, v := range r.Counters {
		merged.Counters[k] += v
	}
	for k, v := range r.Outcomes {
		merged.Outcomes[k] += v
	}
	merged.Violations = append(merged.Violations, r.Violations...)
	for _, s := range r.Samples {
		if len(merged.Samples) < 6 {
			merged.Samples = append(merged.Samples, s)
		}
	}
	merged.Exhaustive = merged.Exhaustive && r.Exhaustive
	for _, nn := range r.Notes {
		dup := false
		for _, x := range merged.Notes {
			dup = dup || x == nn
		}
		if !dup {
			merged.Notes = append(merged.Notes, nn)
		}
	}
}

func oneLine(v any) string {
	b, _ := json.Marshal(v)
	return trunc(string(b), 300)
}

// known findings ---------------------------------------------------------------------------

type knownLine struct {
	Property  string `json:"property"`
	Signature string `json:"signature"`
	What      string `json:"what"`
	Fixed     string `json:"fixed"`
}

func loadKnown(id string) map[string]string {
	m := map[string]string{}
	b, err := os.ReadFile(filepath.Join(VerifDir, "known_findings.jsonl"))
	if err != nil {
		return m
	}
	for _, line := range strings.Split(string(b), "\n") {
		line = strings.TrimSpace(line)
		if line == "" || strings.HasPrefix(line, "#") || strings.HasPrefix(line, "fixed:") {
			continue
		}
		var k knownLine
		if json.Unmarshal([]byte(line), &k) != nil || k.Fixed != "" {
			continue // fixed entries suppress nothing
		}
		if k.Property == id {
			m[k.Signature] = k.What
		}
	}
	return m
}

func writeReplay(id string, v *Violation) string {
	dir := filepath.Join(outDir(), "replays", id)
	os.MkdirAll(dir, 0o755) //nolint:errcheck
	b, _ := json.MarshalIndent(v, "", " ")
	h := sha256.Sum256([]byte(v.Signature + "\x00" + oneLine(v.Input)))
	p := filepath.Join(dir, hex.EncodeToString(h[:6])+".json")
	os.WriteFile(p, b, 0o644) //nolint:errcheck
	return p
}

func doReplay(c *Check, path string) int {
	b, err := os.ReadFile(path)
	if err != nil {
		fmt.Fprintln(os.Stderr, err)
		return 2
	}
	var raw struct {
		Sub   string          `json:"sub"`
		Input json.RawMessage `json:"input"`
	}
	if err := json.Unmarshal(b, &raw); err != nil {
		fmt.Fprintln(os.Stderr, err)
		return 2
	}
	if c.Replay == nil {
		fmt.Fprintln(os.Stderr, "check has no replay function")
		return 2
	}
	if raw.Sub == "process" && os.Getenv("VERIF_REPLAY_CHILD") == "" {
		// the recorded case killed or hung its worker: replay it in a child process under the same fences
		exe, _ := os.Executable()
		cmd := exec.Command(exe, c.ID, "-replay", path)
		cmd.Env = append(os.Environ(), "VERIF_REPLAY_CHILD=1")
		out, _ := cmd.CombinedOutput()
		done := make(chan struct{})
		_ = done
		code := cmd.ProcessState.ExitCode()
		if code == 0 {
			fmt.Printf("replay: property %s holds on this input (the process survived)\n", c.ID)
			return 0
		}
		if code != 1 {
			fmt.Printf("VIOLATION property=%s replay=%s\n  the process running this input died (exit %d): %s\n", c.ID, path, code, trunc(string(out), 600))
			return 1
		}
		fmt.Print(string(out))
		return 1
	}
	if os.Getenv("VERIF_REPLAY_CHILD") != "" {
		fence()
	}
	v := c.Replay(raw.Sub, raw.Input)
	if v == nil {
		fmt.Printf("replay: property %s holds on this input\n", c.ID)
		return 0
	}
	fmt.Printf("VIOLATION property=%s replay=%s\n  signature: %s\n  what: %s\n  expected: %s\n  observed: %s\n", c.ID, path, v.Signature, v.What, v.Expected, v.Observed)
	return 1
}

// evidence ---------------------------------------------------------------------------------

func writeEvidence(c *Check, tier string, seed int64, m *Result, wall float64, nviol int, knownHit, broken []string) {
	cov := map[string]any{
		"evaluations":         m.Evaluations,
		"distinct_nontrivial": m.Nontrivial,
		"distinct_cases":      m.Distinct,
		"rule":                c.Rule,
		"samples":             m.Samples,
		"exhaustive":          m.Exhaustive && len(broken) == 0,
		"distinct_outcomes":   len(m.Outcomes),
		"counters":            m.Counters,
		"notes":               m.Notes,
		"trusted_base":        c.TrustedBase,
		"known_findings_hit":  knownHit,
		"broken":              broken,
	}
	if len(m.Samples) == 0 {
		cov["samples"] = []any{"(no sample recorded)"}
	}
	for _, k := range []string{"states", "transitions", "traces_validated_against_impl"} {
		if v, ok := m.Counters[k]; ok {
			cov[k] = v
		}
	}
	// a short list of the most frequent outcomes, for the reader
	type kv struct {
		k string
		v int64
	}
	var kvs []kv
	for k, v := range m.Outcomes {
		kvs = append(kvs, kv{k, v})
	}
	sort.Slice(kvs, func(i, j int) bool { return kvs[i].v > kvs[j].v || (kvs[i].v == kvs[j].v && kvs[i].k < kvs[j].k) })
	top := map[string]int64{}
	for i, e := range kvs {
		if i >= 25 {
			break
		}
		top[e.k] = e.v
	}
	cov["top_outcomes"] = top
	if c.Extra != nil {
		c.Extra(m, cov)
	}
	ev := map[string]any{
		"property_id": c.ID,
		"tier":        tier,
		"seed":        seed,
		"level":       c.Level,
		"coverage":    cov,
		"assumptions": c.Assumptions,
		"wall_s":      wall,
		"violations":  nviol,
	}
	dir := filepath.Join(outDir(), "evidence")
	os.MkdirAll(dir, 0o755) //nolint:errcheck
	b, _ := json.MarshalIndent(ev, "", " ")
	os.WriteFile(filepath.Join(dir, c.ID+".json"), b, 0o644) //nolint:errcheck
}
