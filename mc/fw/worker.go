package fw

import (
	"encoding/json"
	"fmt"
	"hash/fnv"
	"os"
	"runtime"
	"runtime/debug"
	"sort"
	"strconv"
	"strings"
	"syscall"
	"time"
)

// Violation is one failing case, replayable from Input alone.
type Violation struct {
	Property  string `json:"property"`
	Sub       string `json:"sub"`       // sub-check name, used to dispatch a replay
	Signature string `json:"signature"` // narrow classifier slug (see known_findings.jsonl)
	What      string `json:"what"`
	Input     any    `json:"input"`
	Expected  string `json:"expected,omitempty"`
	Observed  string `json:"observed,omitempty"`
	Count     int64  `json:"count,omitempty"` // how many cases shared this signature (merged)
	// NoConfirm skips the 5x reproduction step: for sub-checks whose violation IS run-to-run
	// nondeterminism of the code under test (fresh-process comparison), it cannot be required to reproduce.
	NoConfirm bool `json:"-"`
}

// Result is what one worker reports to the supervisor.
type Result struct {
	Shard       int              `json:"shard"`
	Evaluations int64            `json:"evaluations"`
	Distinct    int64            `json:"distinct"`
	Nontrivial  int64            `json:"nontrivial"`
	Counters    map[string]int64 `json:"counters"`
	Outcomes    map[string]int64 `json:"outcomes"`
	Violations  []Violation      `json:"violations"`
	Samples     []any            `json:"samples"`
	Exhaustive  bool             `json:"exhaustive"`
	Notes       []string         `json:"notes"`
	Internal    []string         `json:"internal"` // harness errors: make the check "broken", never a violation
	Done        bool             `json:"done"`
	Seq         int64            `json:"seq"` // number of owned cases handled so far (checkpoints)
}

// Worker runs one shard of a check.
type Worker struct {
	Check   string
	Tier    string
	Shard   int
	NShards int
	Seed    int64

	Res       Result
	seen      map[uint64]struct{}
	sigCount  map[string]int
	journal   *os.File
	nprogress int
	skip      map[string]string
	deadline  time.Time
	expired   bool
	curNT     bool

	// MaxPerSig bounds how many violations with one signature are kept in full.
	MaxPerSig int

	// checkpointing (resumable checks): cases with sequence number <= resume were handled by an earlier
	// incarnation of this shard whose partial result the supervisor already holds
	seq      int64
	resume   int64
	ckptPath string
	lastCkpt time.Time
}

const maxOutcomes = 20000

func newWorker(check, tier string, shard, n int, seed int64, journalPath string, skip map[string]string, deadline time.Time) *Worker {
	w := &Worker{Check: check, Tier: tier, Shard: shard, NShards: n, Seed: seed,
		seen: map[uint64]struct{}{}, sigCount: map[string]int{}, skip: skip, deadline: deadline, MaxPerSig: 3}
	w.Res.Shard = shard
	w.Res.Counters = map[string]int64{}
	w.Res.Outcomes = map[string]int64{}
	w.Res.Exhaustive = true
	if journalPath != "" {
		f, err := os.OpenFile(journalPath, os.O_CREATE|os.O_RDWR|os.O_TRUNC, 0o644)
		if err != nil {
			panic(err)
		}
		w.journal = f
	}
	return w
}

// Quick reports whether the quick tier is running.
func (w *Worker) Quick() bool { return w.Tier != "thorough" }

// Expired reports whether the tier's internal deadline has passed. Generators poll it
// and stop; the run then ends with exhaustive:false and exit 0 (never a violation).
func (w *Worker) Expired() bool {
	if w.expired {
		return true
	}
	if !w.deadline.IsZero() && time.Now().After(w.deadline) {
		w.expired = true
		w.Res.Exhaustive = false
		w.Note("internal tier deadline reached; enumeration cut short (exhaustive:false)")
	}
	return w.expired
}

// NotExhaustive marks the run as a capped one with a reason.
func (w *Worker) NotExhaustive(why string) {
	w.Res.Exhaustive = false
	w.Note(why)
}

// Note records a free-text remark once.
func (w *Worker) Note(s string) {
	for _, n := range w.Res.Notes {
		if n == s {
			return
		}
	}
	w.Res.Notes = append(w.Res.Notes, s)
}

// Count bumps a named counter.
func (w *Worker) Count(name string, d int64) { w.Res.Counters[name] += d }

// Outcome records a distinct observed outcome (capped set).
func (w *Worker) Outcome(o string) {
	if len(o) > 200 {
		o = o[:200]
	}
	if _, ok := w.Res.Outcomes[o]; ok || len(w.Res.Outcomes) < maxOutcomes {
		w.Res.Outcomes[o]++
	}
}

// Nontrivial flags the case being run as non-trivial by the check's rule.
func (w *Worker) Nontrivial() { w.curNT = true }

// Sample keeps up to 6 written-out cases per shard.
func (w *Worker) Sample(s any) {
	if len(w.Res.Samples) < 6 {
		w.Res.Samples = append(w.Res.Samples, s)
	}
}

// Internal records a harness error (broken check).
func (w *Worker) Internal(s string) {
	if len(w.Res.Internal) < 20 {
		w.Res.Internal = append(w.Res.Internal, s)
	}
}

func hash64(s string) uint64 {
	h := fnv.New64a()
	h.Write([]byte(s))
	return h.Sum64()
}

// Mine reports whether this shard owns key and has not seen it before.
func (w *Worker) Mine(key string) bool {
	h := hash64(key)
	if w.NShards > 1 && int(h%uint64(w.NShards)) != w.Shard {
		return false
	}
	if _, dup := w.seen[h]; dup {
		return false
	}
	w.seen[h] = struct{}{}
	return true
}

// Case runs one case owned by this shard: journals it, executes fn, confirms a
// violation by re-running it 5 times, and records the result. key identifies the
// case completely (it is what the journal holds when the process dies).
func (w *Worker) Case(key string, fn func() *Violation) {
	if !w.Mine(key) {
		return
	}
	w.RunCase(key, fn)
}

// RunCase is Case without sharding/deduplication.
func (w *Worker) RunCase(key string, fn func() *Violation) {
	w.seq++
	if w.seq <= w.resume {
		return
	}
	defer w.checkpoint()
	w.Res.Distinct++
	if kind, ok := w.skip[key]; ok {
		w.Res.Evaluations++
		w.Outcome(kind)
		w.AddViolation(&Violation{Sub: "process", Signature: kind, What: "the process running this case " + kind, Input: key})
		return
	}
	w.writeJournal(key)
	w.curNT = false
	v, perr := w.safe(fn)
	w.Res.Evaluations++
	if w.curNT {
		w.Res.Nontrivial++
	}
	if perr != "" {
		w.Internal("panic in harness while running case " + trunc(key, 300) + ": " + perr)
		return
	}
	if v == nil {
		return
	}
	// confirm: same verdict 5 times
	for i := 0; i < 5 && !v.NoConfirm; i++ {
		v2, perr2 := w.safe(fn)
		if perr2 != "" || v2 == nil || v2.Signature != v.Signature || v2.Observed != v.Observed {
			w.Internal(fmt.Sprintf("HARNESS-NONDETERMINISM: violation %q of case %s did not reproduce on re-run %d", v.Signature, trunc(key, 300), i+1))
			return
		}
	}
	w.AddViolation(v)
}

// AddViolation records a (confirmed) violation.
func (w *Worker) AddViolation(v *Violation) {
	w.sigCount[v.Signature]++
	if w.sigCount[v.Signature] > w.MaxPerSig {
		for i := range w.Res.Violations {
			if w.Res.Violations[i].Signature == v.Signature {
				w.Res.Violations[i].Count++
				break
			}
		}
		return
	}
	v.Count = 1
	w.Res.Violations = append(w.Res.Violations, *v)
}

// checkpoint writes the partial result every few seconds so that a restarted shard need not redo finished cases.
func (w *Worker) checkpoint() {
	if w.ckptPath == "" || w.seq%32 != 0 || time.Since(w.lastCkpt) < 3*time.Second {
		return
	}
	w.lastCkpt = time.Now()
	w.Res.Seq = w.seq
	tmp := w.ckptPath + ".tmp"
	if w.Res.write(tmp) == nil {
		os.Rename(tmp, w.ckptPath) //nolint:errcheck
	}
}

func (w *Worker) safe(fn func() *Violation) (v *Violation, perr string) {
	defer func() {
		if r := recover(); r != nil {
			perr = fmt.Sprint(r) + "\n" + trunc(string(debug.Stack()), 3000)
		}
	}()
	return fn(), ""
}

// progressMark prefixes journal entries written between cases.
const progressMark = "\x00progress:"

// Progress tells the supervisor that the worker is alive while it does long work outside of cases (enumeration, exploration
// whose single steps are not journalled): the hang detector measures CPU time since the journal last moved.
func (w *Worker) Progress() {
	w.nprogress++
	if w.nprogress%64 == 1 {
		w.writeJournal(progressMark + strconv.Itoa(w.nprogress))
	}
}

func (w *Worker) writeJournal(key string) {
	if w.journal == nil {
		return
	}
	if len(key) > 60000 {
		key = key[:60000]
	}
	b := make([]byte, 0, len(key)+12)
	b = append(b, fmt.Sprintf("%010d\n", len(key))...)
	b = append(b, key...)
	w.journal.WriteAt(b, 0) //nolint:errcheck
}

func readJournal(path string) (string, bool) {
	b, err := os.ReadFile(path)
	if err != nil || len(b) < 11 {
		return "", false
	}
	var n int
	if _, err := fmt.Sscanf(string(b[:10]), "%d", &n); err != nil || 11+n > len(b) {
		return "", false
	}
	return string(b[11 : 11+n]), true
}

func trunc(s string, n int) string {
	if len(s) <= n {
		return s
	}
	return s[:n] + "…"
}

// Trunc shortens a string for messages.
func Trunc(s string, n int) string { return trunc(s, n) }

// fence installs the resource fences of a worker process.
func fence() {
	debug.SetMaxStack(64 << 20)
	var lim syscall.Rlimit
	lim.Cur, lim.Max = 12<<30, 12<<30
	syscall.Setrlimit(syscall.RLIMIT_AS, &lim) //nolint:errcheck
	go func() {
		var m runtime.MemStats
		for {
			time.Sleep(50 * time.Millisecond)
			runtime.ReadMemStats(&m)
			if m.HeapAlloc > 3<<30 {
				fmt.Fprintln(os.Stderr, "MEMORY-FENCE: heap above 3 GiB, aborting worker")
				os.Exit(97)
			}
		}
	}()
}

func (r *Result) write(path string) error {
	b, err := json.Marshal(r)
	if err != nil {
		return err
	}
	return os.WriteFile(path, b, 0o644)
}

// SortedKeys returns the keys of a map in sorted order.
func SortedKeys[V any](m map[string]V) []string {
	ks := make([]string, 0, len(m))
	for k := range m {
		ks = append(ks, k)
	}
	sort.Strings(ks)
	return ks
}

// FirstLine returns the first line of s.
func FirstLine(s string) string {
	if i := strings.IndexByte(s, '\n'); i >= 0 {
		return s[:i]
	}
	return s
}
