package ref

import (
	"fmt"
	"math"
	"strings"

	"verif/mc/pt"
)

// Val is a run-time value: float64, string, bool, *Arr, *Map or AnyV.
// Basic values are immutable Go values, so copying on binding is automatic and
// aliasing between basic variables is impossible by construction; arrays and
// maps are references.
type Val any

// Arr is an array object.
type Arr struct{ Els []Val }

// Map is an insertion-ordered dictionary: a key slice plus a lookup table.
type Map struct {
	Keys []string
	M    map[string]Val
}

// AnyV is a value held in an `any`, with the concrete type it had when wrapped.
type AnyV struct {
	T *pt.Type
	V Val
}

// RtErr is a run-time panic / exit / stop of the reference interpreter.
type RtErr struct {
	Class string // same vocabulary as run.Classify
	Msg   string
}

func (e *RtErr) Error() string { return e.Class + ": " + e.Msg }

// typeErr passes latitude through and wraps real static errors.
func typeErr(err error) error {
	if _, ok := err.(*LatitudeErr); ok {
		return err
	}
	return &RtErr{"ref-type-error", err.Error()}
}

func rterr(class, f string, a ...any) error { return &RtErr{class, fmt.Sprintf(f, a...)} }

type cell struct {
	T *pt.Type
	V Val
}

type frame struct {
	vars  map[string]*cell
	outer *frame
}

func (f *frame) lookup(name string) *cell {
	for ; f != nil; f = f.outer {
		if c, ok := f.vars[name]; ok {
			return c
		}
	}
	return nil
}

type ctrl int

const (
	cNone ctrl = iota
	cBreak
	cReturn
)

// Interp is the reference interpreter.
type Interp struct {
	Funcs    map[string]*pt.Func
	Handlers map[string]*pt.On
	Sigs     map[string]*Sig
	global   *frame
	cur      *frame
	Trace    []string
	Inputs   []string
	inPos    int
	Steps    int
	Budget   int
	depth    int
	retVal   Val
	// test bookkeeping
	TestTotal, TestFails int
	TestMsgs             []string // message expected with each failed test ("" none, "\x00" undefined)
	FailFast             bool
	NoTestSummary        bool
	testErrs             int
	RandInts             func(n int32) int32
	RandFloat            func() float64
}

// NewInterp prepares an interpreter for prog.
func NewInterp(prog *pt.Prog) *Interp {
	in := &Interp{Funcs: map[string]*pt.Func{}, Handlers: map[string]*pt.On{}, Sigs: map[string]*Sig{}, Budget: 400000}
	for name, s := range BuiltinSigs {
		in.Sigs[name] = s
	}
	for _, s := range prog.Stmts {
		switch v := s.(type) {
		case pt.Func:
			f := v
			in.Funcs[v.Name] = &f
			in.Sigs[v.Name] = SigOf(&f)
		case pt.On:
			h := v
			in.Handlers[v.Name] = &h
		}
	}
	in.global = &frame{vars: map[string]*cell{
		"err":    {pt.TBool, false},
		"errmsg": {pt.TStr, ""},
		"pi":     {pt.TNum, math.Pi},
	}}
	in.cur = in.global
	return in
}

// SigOf derives the signature of a user function.
func SigOf(f *pt.Func) *Sig {
	s := &Sig{Ret: pt.TNone, Variadic: f.Variadic}
	if f.Ret != nil {
		s.Ret = f.Ret
	}
	for _, p := range f.Params {
		s.Params = append(s.Params, p.T)
	}
	return s
}

// VarType implements TEnv on the dynamic scope chain (which mirrors the static one).
func (in *Interp) VarType(name string) (*pt.Type, bool) {
	if c := in.cur.lookup(name); c != nil {
		return c.T, true
	}
	return nil, false
}

// Func implements TEnv.
func (in *Interp) Func(name string) (*Sig, bool) { s, ok := in.Sigs[name]; return s, ok }

func (in *Interp) step() error {
	in.Steps++
	if in.Steps > in.Budget {
		return rterr("budget", "step budget exhausted")
	}
	return nil
}

func (in *Interp) eff(s string) { in.Trace = append(in.Trace, s) }

// Run executes the top-level statements. It returns nil, or an *RtErr.
func (in *Interp) Run(prog *pt.Prog) error {
	_, err := in.block(prog.Stmts, false)
	in.report()
	if err != nil {
		return err
	}
	if in.TestFails > 0 {
		return rterr("test-fail", "%d failed tests", in.TestFails)
	}
	return nil
}

func (in *Interp) report() {
	if in.NoTestSummary || in.TestTotal == 0 {
		return
	}
	pl := func(n int) string {
		if n == 1 {
			return ""
		}
		return "s"
	}
	succ := in.TestTotal - in.TestFails
	if in.TestFails > 0 {
		in.eff(fmt.Sprintf("print:❌ %d failed test%s\n✔️ %d passed test%s\n", in.TestFails, pl(in.TestFails), succ, pl(succ)))
	} else {
		in.eff(fmt.Sprintf("print:✅ %d passed test%s\n", succ, pl(succ)))
	}
}

// Event delivers an event to its handler (payload values are float64/string).
func (in *Interp) Event(name string, payload []Val) error {
	h := in.Handlers[name]
	if h == nil {
		return rterr("no-handler", "no handler for %s", name)
	}
	// every declared parameter (named or _) takes a payload element of its type; a mismatch is reported and the handler does not run
	for i, p := range h.Params {
		if i >= len(payload) {
			return rterr("latitude", "payload shorter than the signature")
		}
		ok := false
		switch p.T.K {
		case pt.Num:
			_, ok = payload[i].(float64)
		case pt.Str:
			_, ok = payload[i].(string)
		case pt.Bool:
			_, ok = payload[i].(bool)
		}
		if !ok {
			return rterr("panic:assertion", "event %s: payload element %d is not a %s", name, i, p.T)
		}
	}
	saved := in.cur
	in.cur = &frame{vars: map[string]*cell{}, outer: in.global}
	defer func() { in.cur = saved }()
	for i, p := range h.Params {
		if p.Name == "_" {
			continue
		}
		in.cur.vars[p.Name] = &cell{p.T, payload[i]}
	}
	_, err := in.block(h.Body, false)
	return err
}

func (in *Interp) block(ss []pt.Stmt, scoped bool) (ctrl, error) {
	if scoped {
		in.cur = &frame{vars: map[string]*cell{}, outer: in.cur}
		defer func() { in.cur = in.cur.outer }()
	}
	for _, s := range ss {
		c, err := in.stmt(s)
		if err != nil || c != cNone {
			return c, err
		}
	}
	return cNone, nil
}

// Zero returns the zero value of a type.
func Zero(t *pt.Type) Val {
	switch t.K {
	case pt.Num:
		return 0.0
	case pt.Str:
		return ""
	case pt.Bool:
		return false
	case pt.Any:
		return AnyV{pt.TBool, false}
	case pt.Arr:
		return &Arr{}
	case pt.Map:
		return &Map{M: map[string]Val{}}
	}
	panic("ref.Zero")
}

func (in *Interp) stmt(s pt.Stmt) (ctrl, error) {
	if err := in.step(); err != nil {
		return cNone, err
	}
	switch v := s.(type) {
	case pt.Comment, pt.Blank, pt.Func, pt.On:
		return cNone, nil
	case pt.TypedDecl:
		in.cur.vars[v.Name] = &cell{v.T, Zero(v.T)}
		return cNone, nil
	case pt.InferDecl:
		t, _, err := TypeOf(v.X, in)
		if err != nil {
			return cNone, typeErr(err)
		}
		t = t.Infer()
		val, err := in.evalTo(v.X, t)
		if err != nil {
			return cNone, err
		}
		in.cur.vars[v.Name] = &cell{t, val}
		return cNone, nil
	case pt.Assign:
		return cNone, in.assign(v)
	case pt.CallStmt:
		_, err := in.call(v.C)
		return cNone, err
	case pt.If:
		for i, c := range v.Conds {
			in.cur = &frame{vars: map[string]*cell{}, outer: in.cur}
			cv, err := in.evalTo(c, pt.TBool)
			if err != nil {
				in.cur = in.cur.outer
				return cNone, err
			}
			if cv.(bool) {
				ct, err := in.block(v.Blocks[i], false)
				in.cur = in.cur.outer
				return ct, err
			}
			in.cur = in.cur.outer
		}
		if v.Else != nil {
			return in.block(v.Else, true)
		}
		return cNone, nil
	case pt.While:
		for {
			if err := in.step(); err != nil {
				return cNone, err
			}
			cv, err := in.evalTo(v.Cond, pt.TBool)
			if err != nil {
				return cNone, err
			}
			if !cv.(bool) {
				return cNone, nil
			}
			ct, err := in.block(v.Body, true)
			if err != nil {
				return cNone, err
			}
			if ct == cBreak {
				return cNone, nil
			}
			if ct == cReturn {
				return ct, nil
			}
		}
	case pt.For:
		return in.forStmt(v)
	case pt.Break:
		return cBreak, nil
	case pt.Return:
		in.retVal = nil
		if v.X != nil {
			val, err := in.evalTo(v.X, in.curRet())
			if err != nil {
				return cNone, err
			}
			in.retVal = val
		}
		return cReturn, nil
	case pt.Raw:
		return cNone, rterr("ref-type-error", "raw statement")
	}
	return cNone, rterr("ref-type-error", "unknown statement %T", s)
}

var retStack []*pt.Type

func (in *Interp) curRet() *pt.Type {
	if len(retStack) == 0 {
		return pt.TNone
	}
	return retStack[len(retStack)-1]
}

func (in *Interp) forStmt(v pt.For) (ctrl, error) {
	in.cur = &frame{vars: map[string]*cell{}, outer: in.cur}
	defer func() { in.cur = in.cur.outer }()
	bind := func(t *pt.Type, val Val) {
		if v.Var != "" {
			in.cur.vars[v.Var] = &cell{t, val}
		}
	}
	body := func() (ctrl, bool, error) {
		if err := in.step(); err != nil {
			return cNone, true, err
		}
		ct, err := in.block(v.Body, false)
		if err != nil {
			return cNone, true, err
		}
		if ct == cBreak {
			return cNone, true, nil
		}
		if ct == cReturn {
			return ct, true, nil
		}
		// a body-local declaration must not survive into the next iteration: drop everything but the loop variable
		for name := range in.cur.vars {
			if name != v.Var {
				delete(in.cur.vars, name)
			}
		}
		return cNone, false, nil
	}
	t0, _, err := TypeOf(v.Range[0], in)
	if err != nil {
		return cNone, typeErr(err)
	}
	if t0.K == pt.Num {
		nums := make([]float64, len(v.Range))
		for i, r := range v.Range {
			x, err := in.evalTo(r, pt.TNum)
			if err != nil {
				return cNone, err
			}
			nums[i] = x.(float64)
		}
		start, stop, stepv := 0.0, 0.0, 1.0
		switch len(nums) {
		case 1:
			stop = nums[0]
		case 2:
			start, stop = nums[0], nums[1]
		default:
			start, stop, stepv = nums[0], nums[1], nums[2]
		}
		if stepv == 0 {
			return cNone, rterr("panic:range", "step cannot be 0")
		}
		bind(pt.TNum, 0.0)
		for cur := start; (stepv > 0 && cur < stop) || (stepv < 0 && cur > stop); cur += stepv {
			bind(pt.TNum, cur)
			ct, done, err := body()
			if done {
				return ct, err
			}
		}
		return cNone, nil
	}
	coll, err := in.evalTo(v.Range[0], t0.Infer())
	if err != nil {
		return cNone, err
	}
	switch c := coll.(type) {
	case *Arr:
		et := t0.Infer().Sub
		bind(et, Zero(et))
		for i := 0; i < len(c.Els); i++ {
			bind(et, c.Els[i])
			ct, done, err := body()
			if done {
				return ct, err
			}
		}
	case string:
		bind(pt.TStr, "")
		for _, r := range []rune(c) {
			bind(pt.TStr, string(r))
			ct, done, err := body()
			if done {
				return ct, err
			}
		}
	case *Map:
		keys := append([]string(nil), c.Keys...)
		bind(pt.TStr, "")
		for _, k := range keys {
			if _, ok := c.M[k]; !ok {
				continue
			}
			bind(pt.TStr, k)
			ct, done, err := body()
			if done {
				return ct, err
			}
		}
	default:
		return cNone, rterr("ref-type-error", "range over %T", coll)
	}
	return cNone, nil
}

func (in *Interp) assign(v pt.Assign) error {
	switch tg := v.Target.(type) {
	case pt.Var:
		c := in.cur.lookup(tg.Name)
		if c == nil {
			return rterr("ref-type-error", "assignment to unknown %s", tg.Name)
		}
		val, err := in.evalTo(v.X, c.T)
		if err != nil {
			return err
		}
		c.V = val
		return nil
	case pt.Index:
		ct, _, err := TypeOf(tg.X, in)
		if err != nil {
			return typeErr(err)
		}
		// the evaluator evaluates the value first, then container and index; targets in
		// generated programs are effect-free so the order is unobservable.
		val, err := in.evalTo(v.X, ct.Sub)
		if err != nil {
			return err
		}
		cont, err := in.eval(tg.X)
		if err != nil {
			return err
		}
		idx, err := in.eval(tg.I)
		if err != nil {
			return err
		}
		switch c := cont.(type) {
		case *Arr:
			i, err := NormIndex(idx.(float64), len(c.Els), false)
			if err != nil {
				return err
			}
			c.Els[i] = val
		case *Map:
			c.Set(idx.(string), val)
		default:
			return rterr("ref-type-error", "index assignment into %T", cont)
		}
		return nil
	case pt.Dot:
		ct, _, err := TypeOf(tg.X, in)
		if err != nil {
			return typeErr(err)
		}
		val, err := in.evalTo(v.X, ct.Sub)
		if err != nil {
			return err
		}
		cont, err := in.eval(tg.X)
		if err != nil {
			return err
		}
		cont.(*Map).Set(tg.Key, val)
		return nil
	}
	return rterr("ref-type-error", "bad assignment target %T", v.Target)
}

// Set inserts or overwrites a key (an overwrite keeps the position).
func (m *Map) Set(k string, v Val) {
	if _, ok := m.M[k]; !ok {
		m.Keys = append(m.Keys, k)
	}
	m.M[k] = v
}

// Del removes a key if present.
func (m *Map) Del(k string) {
	if _, ok := m.M[k]; !ok {
		return
	}
	delete(m.M, k)
	for i, x := range m.Keys {
		if x == k {
			m.Keys = append(append([]string(nil), m.Keys[:i]...), m.Keys[i+1:]...)
			return
		}
	}
}

// NormIndex applies the index law: integer, -n <= i < n (slice bounds: <= n).
func NormIndex(f float64, n int, slice bool) (int, error) {
	if f != math.Trunc(f) || math.IsInf(f, 0) || math.IsNaN(f) {
		return 0, rterr("panic:index-value", "index not an integer: %v", f)
	}
	if math.Abs(f) >= 1<<62 {
		return 0, rterr("panic:huge-index", "index beyond int64: %v", f)
	}
	i := int(f)
	limit := n - 1
	if slice {
		limit = n
	}
	if i < -n || i > limit {
		return 0, rterr("panic:bounds", "index out of bounds: %d", i)
	}
	if i < 0 {
		i += n
	}
	return i, nil
}

// eval evaluates e to the natural value of its static type.
func (in *Interp) eval(e pt.Expr) (Val, error) {
	t, _, err := TypeOf(e, in)
	if err != nil {
		return nil, typeErr(err)
	}
	return in.evalTo(e, t.Infer())
}

func isLiteral(e pt.Expr) (pt.Expr, bool) {
	for {
		switch v := e.(type) {
		case pt.Group:
			e = v.X
			continue
		case pt.ArrLit, pt.MapLit:
			return v, true
		}
		return nil, false
	}
}

// evalTo evaluates e for a target of type target (which the checker has accepted):
// literals take the target's element types, values entering an `any` are wrapped with their concrete type.
func (in *Interp) evalTo(e pt.Expr, target *pt.Type) (Val, error) {
	if err := in.step(); err != nil {
		return nil, err
	}
	t, _, err := TypeOf(e, in)
	if err != nil {
		return nil, typeErr(err)
	}
	if target.K == pt.Any && t.K != pt.Any {
		it := t.Infer()
		v, err := in.evalTo(e, it)
		if err != nil {
			return nil, err
		}
		return AnyV{it, v}, nil
	}
	if lit, ok := isLiteral(e); ok && target.Composite() {
		switch l := lit.(type) {
		case pt.ArrLit:
			a := &Arr{Els: make([]Val, 0, len(l.Els))}
			for _, el := range l.Els {
				v, err := in.evalTo(el, target.Sub)
				if err != nil {
					return nil, err
				}
				a.Els = append(a.Els, v)
			}
			return a, nil
		case pt.MapLit:
			m := &Map{M: map[string]Val{}}
			for i, k := range l.Keys {
				v, err := in.evalTo(l.Vals[i], target.Sub)
				if err != nil {
					return nil, err
				}
				m.Set(k, v)
			}
			return m, nil
		}
	}
	switch v := e.(type) {
	case pt.NumLit:
		return v.V, nil
	case pt.StrLit:
		return v.V, nil
	case pt.BoolLit:
		return v.V, nil
	case pt.Var:
		c := in.cur.lookup(v.Name)
		if c == nil {
			return nil, rterr("ref-type-error", "unknown variable %s", v.Name)
		}
		return c.V, nil
	case pt.Group:
		return in.evalTo(v.X, target)
	case pt.Unary:
		x, err := in.eval(v.X)
		if err != nil {
			return nil, err
		}
		if v.Op == "-" {
			return -x.(float64), nil
		}
		return !x.(bool), nil
	case pt.Binary:
		return in.binary(v, target)
	case pt.Index:
		x, err := in.eval(v.X)
		if err != nil {
			return nil, err
		}
		i, err := in.eval(v.I)
		if err != nil {
			return nil, err
		}
		switch c := x.(type) {
		case *Arr:
			n, err := NormIndex(i.(float64), len(c.Els), false)
			if err != nil {
				return nil, err
			}
			return c.Els[n], nil
		case string:
			rs := []rune(c)
			n, err := NormIndex(i.(float64), len(rs), false)
			if err != nil {
				return nil, err
			}
			return string(rs[n]), nil
		case *Map:
			val, ok := c.M[i.(string)]
			if !ok {
				return nil, rterr("panic:map-key", "no value for map key %q", i)
			}
			return val, nil
		}
		return nil, rterr("ref-type-error", "index of %T", x)
	case pt.Slice:
		x, err := in.eval(v.X)
		if err != nil {
			return nil, err
		}
		var lo, hi Val
		if v.Lo != nil {
			if lo, err = in.eval(v.Lo); err != nil {
				return nil, err
			}
		}
		if v.Hi != nil {
			if hi, err = in.eval(v.Hi); err != nil {
				return nil, err
			}
		}
		return SliceVal(x, lo, hi)
	case pt.Dot:
		x, err := in.eval(v.X)
		if err != nil {
			return nil, err
		}
		val, ok := x.(*Map).M[v.Key]
		if !ok {
			return nil, rterr("panic:map-key", "no value for map key %q", v.Key)
		}
		return val, nil
	case pt.Assert:
		x, err := in.eval(v.X)
		if err != nil {
			return nil, err
		}
		a := x.(AnyV)
		if !a.T.Eq(v.T) {
			return nil, rterr("panic:assertion", "expected %s, found %s", v.T, a.T)
		}
		return a.V, nil
	case pt.Call:
		return in.call(v)
	case pt.ArrLit, pt.MapLit:
		return nil, rterr("ref-type-error", "literal %T for non-composite target %s", e, target)
	}
	return nil, rterr("ref-type-error", "unknown expression %T", e)
}

// SliceVal applies the slice law to an array or string.
func SliceVal(x, lo, hi Val) (Val, error) {
	n := 0
	var rs []rune
	arr, isArr := x.(*Arr)
	if isArr {
		n = len(arr.Els)
	} else {
		rs = []rune(x.(string))
		n = len(rs)
	}
	a, b := 0, n
	var err error
	if lo != nil {
		if a, err = NormIndex(lo.(float64), n, true); err != nil {
			return nil, err
		}
	}
	if hi != nil {
		if b, err = NormIndex(hi.(float64), n, true); err != nil {
			return nil, err
		}
	}
	if a > b {
		return nil, rterr("panic:slice", "%d > %d", a, b)
	}
	if isArr {
		return &Arr{Els: append([]Val(nil), arr.Els[a:b]...)}, nil
	}
	return string(rs[a:b]), nil
}

func (in *Interp) binary(v pt.Binary, target *pt.Type) (Val, error) {
	if v.Op == "and" || v.Op == "or" {
		l, err := in.eval(v.L)
		if err != nil {
			return nil, err
		}
		if (v.Op == "and" && !l.(bool)) || (v.Op == "or" && l.(bool)) {
			return l, nil
		}
		return in.eval(v.R)
	}
	lt, _, lerr := TypeOf(v.L, in)
	rt, _, rerr := TypeOf(v.R, in)
	if lerr != nil || rerr != nil {
		return nil, rterr("ref-type-error", "%v %v", lerr, rerr)
	}
	ot := operandType(v.Op, lt, rt, target)
	l, err := in.evalTo(v.L, ot)
	if err != nil {
		return nil, err
	}
	var r Val
	if v.Op == "*" && ot.K == pt.Arr {
		r, err = in.evalTo(v.R, pt.TNum)
	} else {
		r, err = in.evalTo(v.R, ot)
	}
	if err != nil {
		return nil, err
	}
	switch v.Op {
	case "==":
		return Equal(l, r), nil
	case "!=":
		return !Equal(l, r), nil
	}
	switch a := l.(type) {
	case float64:
		b := r.(float64)
		switch v.Op {
		case "+":
			return a + b, nil
		case "-":
			return a - b, nil
		case "*":
			return a * b, nil
		case "/":
			return a / b, nil
		case "%":
			return math.Mod(a, b), nil
		case "<":
			return a < b, nil
		case "<=":
			return a <= b, nil
		case ">":
			return a > b, nil
		case ">=":
			return a >= b, nil
		}
	case string:
		b := r.(string)
		switch v.Op {
		case "+":
			return a + b, nil
		case "<":
			return strings.Compare(a, b) < 0, nil
		case "<=":
			return strings.Compare(a, b) <= 0, nil
		case ">":
			return strings.Compare(a, b) > 0, nil
		case ">=":
			return strings.Compare(a, b) >= 0, nil
		}
	case *Arr:
		switch v.Op {
		case "+":
			b := r.(*Arr)
			return &Arr{Els: append(append([]Val(nil), a.Els...), b.Els...)}, nil
		case "*":
			n := r.(float64)
			if n != math.Trunc(n) || math.IsInf(n, 0) || math.IsNaN(n) {
				return nil, rterr("panic:repetition", "not an integer: %v", n)
			}
			if n < 0 {
				return nil, rterr("panic:repetition", "negative count: %v", n)
			}
			if n*float64(len(a.Els)) > 1e7 {
				return nil, rterr("resource", "repetition too large for the reference")
			}
			out := &Arr{}
			for i := 0; i < int(n); i++ {
				for _, el := range a.Els {
					out.Els = append(out.Els, DeepCopy(el))
				}
			}
			return out, nil
		}
	}
	return nil, rterr("ref-type-error", "binary %s on %T", v.Op, l)
}

// operandType is the type both operands of a binary operator are evaluated to: their common
// static type, where an untyped empty composite adopts the other side's type (or the type the
// context requires, or the any-based inferred type).
func operandType(op string, lt, rt, target *pt.Type) *pt.Type {
	if !lt.Composite() {
		return lt
	}
	if op == "*" {
		rt = lt
	}
	ot := lt
	if lt.HasBottom() && !rt.HasBottom() {
		ot = rt
	}
	if ot.HasBottom() {
		if (op == "+" || op == "*") && target != nil && target.K == ot.K && !target.HasBottom() {
			return target
		}
		return ot.Infer()
	}
	return ot
}

// DeepCopy copies composites recursively.
func DeepCopy(v Val) Val {
	switch x := v.(type) {
	case *Arr:
		out := &Arr{Els: make([]Val, len(x.Els))}
		for i, e := range x.Els {
			out.Els[i] = DeepCopy(e)
		}
		return out
	case *Map:
		out := &Map{Keys: append([]string(nil), x.Keys...), M: map[string]Val{}}
		for k, e := range x.M {
			out.M[k] = DeepCopy(e)
		}
		return out
	case AnyV:
		return AnyV{x.T, DeepCopy(x.V)}
	}
	return v
}

// Equal is deep equality: arrays element-wise, maps as unordered dictionaries, any by type and value.
func Equal(a, b Val) bool {
	switch x := a.(type) {
	case float64:
		y, ok := b.(float64)
		return ok && x == y
	case string:
		y, ok := b.(string)
		return ok && x == y
	case bool:
		y, ok := b.(bool)
		return ok && x == y
	case AnyV:
		y, ok := b.(AnyV)
		return ok && x.T.Eq(y.T) && Equal(x.V, y.V)
	case *Arr:
		y, ok := b.(*Arr)
		if !ok || len(x.Els) != len(y.Els) {
			return false
		}
		for i := range x.Els {
			if !Equal(x.Els[i], y.Els[i]) {
				return false
			}
		}
		return true
	case *Map:
		y, ok := b.(*Map)
		if !ok || len(x.M) != len(y.M) {
			return false
		}
		for k, v := range x.M {
			w, ok := y.M[k]
			if !ok || !Equal(v, w) {
				return false
			}
		}
		return true
	}
	return false
}

// Str renders a value the way `print` does.
func Str(v Val) string {
	switch x := v.(type) {
	case float64:
		return pt.FormatNum(x)
	case string:
		return x
	case bool:
		if x {
			return "true"
		}
		return "false"
	case AnyV:
		return Str(x.V)
	case *Arr:
		parts := make([]string, len(x.Els))
		for i, e := range x.Els {
			parts[i] = Str(e)
		}
		return "[" + strings.Join(parts, " ") + "]"
	case *Map:
		parts := make([]string, 0, len(x.Keys))
		for _, k := range x.Keys {
			parts = append(parts, k+":"+Str(x.M[k]))
		}
		return "{" + strings.Join(parts, " ") + "}"
	case nil:
		return ""
	}
	return fmt.Sprintf("?%T", v)
}

func (in *Interp) call(c pt.Call) (Val, error) {
	if err := in.step(); err != nil {
		return nil, err
	}
	sig, ok := in.Sigs[c.Name]
	if !ok {
		return nil, rterr("ref-type-error", "unknown function %s", c.Name)
	}
	args := make([]Val, len(c.Args))
	for i, a := range c.Args {
		var pt_ *pt.Type
		switch {
		case sig.Variadic:
			pt_ = sig.Params[0]
		case i == 0 && sig.Generic:
			t, _, err := TypeOf(a, in)
			if err != nil {
				return nil, typeErr(err)
			}
			pt_ = t.Infer()
		default:
			if i >= len(sig.Params) {
				return nil, rterr("ref-type-error", "too many arguments for %s", c.Name)
			}
			pt_ = sig.Params[i]
		}
		v, err := in.evalTo(a, pt_)
		if err != nil {
			return nil, err
		}
		args[i] = v
	}
	if b, ok := Builtins[c.Name]; ok {
		return b(in, args)
	}
	f := in.Funcs[c.Name]
	if f == nil {
		return nil, rterr("ref-type-error", "no body for %s", c.Name)
	}
	in.depth++
	defer func() { in.depth-- }()
	if in.depth > 3000 {
		return nil, rterr("budget", "recursion too deep for the reference")
	}
	saved := in.cur
	in.cur = &frame{vars: map[string]*cell{}, outer: in.global}
	defer func() { in.cur = saved }()
	if f.Variadic {
		in.cur.vars[f.Params[0].Name] = &cell{pt.ArrOf(f.Params[0].T), &Arr{Els: args}}
	} else {
		for i, p := range f.Params {
			if p.Name != "_" {
				in.cur.vars[p.Name] = &cell{p.T, args[i]}
			}
		}
	}
	rt := pt.TNone
	if f.Ret != nil {
		rt = f.Ret
	}
	retStack = append(retStack, rt)
	defer func() { retStack = retStack[:len(retStack)-1] }()
	in.retVal = nil
	ct, err := in.block(f.Body, false)
	if err != nil {
		return nil, err
	}
	if ct == cReturn {
		return in.retVal, nil
	}
	return nil, nil
}
