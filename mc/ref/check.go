package ref

import (
	"verif/mc/pt"
)

// Static checker for whole programs: the static rules of the specification
// (declaration before use, use of every declared variable, no redeclaration in the
// same scope, typing, argument counts, missing return, unreachable code, break
// outside a loop, return values in procedures and handlers, unknown functions).
// Check returns nil (accept), a *TypeErr (reject) or a *LatitudeErr (not settled).

type svar struct {
	t    *pt.Type
	used bool
}

type sscope struct {
	vars   map[string]*svar
	outer  *sscope
	loop   bool     // scope of a loop body
	fn     bool     // function / handler boundary
	ret    *pt.Type // return type in effect (nil at top level)
	hasRet bool
}

type checker struct {
	sigs  map[string]*Sig
	funcs map[string]*pt.Func
	cur   *sscope
	lat   *LatitudeErr
}

// EventSigs are the documented event handler signatures.
var EventSigs = map[string][]*pt.Type{
	"key": {pt.TStr}, "down": {pt.TNum, pt.TNum}, "up": {pt.TNum, pt.TNum}, "move": {pt.TNum, pt.TNum},
	"animate": {pt.TNum}, "input": {pt.TStr, pt.TStr},
}

func (c *checker) VarType(name string) (*pt.Type, bool) {
	if name == "_" {
		return nil, false
	}
	for s := c.cur; s != nil; s = s.outer {
		if v, ok := s.vars[name]; ok {
			v.used = true
			return v.t, true
		}
	}
	return nil, false
}

func (c *checker) Func(name string) (*Sig, bool) { s, ok := c.sigs[name]; return s, ok }

func (c *checker) push(loop, fn bool, ret *pt.Type) {
	s := &sscope{vars: map[string]*svar{}, outer: c.cur, loop: loop, fn: fn}
	if c.cur != nil && !fn {
		s.ret, s.hasRet = c.cur.ret, c.cur.hasRet
	}
	if fn {
		s.ret, s.hasRet = ret, true
	}
	c.cur = s
}

func (c *checker) pop() error {
	s := c.cur
	c.cur = s.outer
	for name, v := range s.vars {
		if !v.used {
			return terr("%q declared but not used", name)
		}
	}
	return nil
}

func (c *checker) declare(name string, t *pt.Type, allowUnderscore bool) error {
	if name == "_" {
		if allowUnderscore {
			return nil
		}
		return terr("declaration of anonymous variable not allowed here")
	}
	if name == "err" || name == "errmsg" || name == "pi" {
		return terr("redeclaration of builtin variable %q", name)
	}
	if _, ok := c.cur.vars[name]; ok {
		return terr("redeclaration of %q", name)
	}
	if _, ok := c.sigs[name]; ok {
		return terr("invalid declaration of %q, already used as function name", name)
	}
	c.cur.vars[name] = &svar{t: t}
	return nil
}

func (c *checker) inLoop() bool {
	for s := c.cur; s != nil; s = s.outer {
		if s.loop {
			return true
		}
		if s.fn {
			return false
		}
	}
	return false
}

// Check applies the static rules to a program.
func Check(prog *pt.Prog) error {
	c := &checker{sigs: map[string]*Sig{}, funcs: map[string]*pt.Func{}}
	for n, s := range BuiltinSigs {
		c.sigs[n] = s
	}
	for _, s := range prog.Stmts {
		if f, ok := s.(pt.Func); ok {
			if _, dup := c.sigs[f.Name]; dup {
				return terr("redeclaration of function %q", f.Name)
			}
			if f.Name == "err" || f.Name == "errmsg" || f.Name == "pi" {
				return terr("cannot override builtin variable %q", f.Name)
			}
			ff := f
			c.funcs[f.Name] = &ff
			c.sigs[f.Name] = SigOf(&ff)
		}
	}
	c.cur = &sscope{vars: map[string]*svar{
		"err": {pt.TBool, true}, "errmsg": {pt.TStr, true}, "pi": {pt.TNum, true},
	}}
	handlers := map[string]bool{}
	term := false
	for _, s := range prog.Stmts {
		switch v := s.(type) {
		case pt.Func:
			if err := c.fn(v); err != nil {
				return err
			}
			continue
		case pt.On:
			if handlers[v.Name] {
				return terr("redeclaration of on %s", v.Name)
			}
			handlers[v.Name] = true
			if err := c.on(v); err != nil {
				return err
			}
			continue
		case pt.Comment, pt.Blank:
			continue
		}
		if term {
			return terr("unreachable code")
		}
		t, err := c.stmt(s, true)
		if err != nil {
			return err
		}
		term = term || t
	}
	if err := c.pop(); err != nil {
		return err
	}
	if c.lat != nil {
		return c.lat
	}
	return nil
}

func (c *checker) fn(f pt.Func) error {
	ret := pt.TNone
	if f.Ret != nil {
		ret = f.Ret
	}
	c.push(false, true, ret)
	if f.Variadic {
		if len(f.Params) != 1 {
			return terr("variadic parameter cannot be used with other parameters")
		}
		if err := c.declare(f.Params[0].Name, pt.ArrOf(f.Params[0].T), true); err != nil {
			return err
		}
	} else {
		for _, p := range f.Params {
			if err := c.declare(p.Name, p.T, true); err != nil {
				return err
			}
		}
	}
	term, err := c.stmts(f.Body)
	if err != nil {
		return err
	}
	if f.Ret != nil && !term {
		return terr("missing return")
	}
	return c.pop()
}

func (c *checker) on(h pt.On) error {
	want, ok := EventSigs[h.Name]
	if !ok {
		return terr("unknown event name %s", h.Name)
	}
	c.push(false, true, pt.TNone)
	if len(h.Params) != 0 {
		if len(h.Params) != len(want) {
			return terr("wrong number of parameters")
		}
		for i, p := range h.Params {
			if !p.T.Eq(want[i]) {
				return terr("wrong type for parameter %s", p.Name)
			}
			if err := c.declare(p.Name, p.T, true); err != nil {
				return err
			}
		}
	}
	if _, err := c.stmts(h.Body); err != nil {
		return err
	}
	return c.pop()
}

// stmts checks a block body in the current scope; returns whether it always terminates.
func (c *checker) stmts(ss []pt.Stmt) (bool, error) {
	term := false
	n := 0
	for _, s := range ss {
		switch s.(type) {
		case pt.Comment, pt.Blank:
			continue
		}
		if term {
			return false, terr("unreachable code")
		}
		t, err := c.stmt(s, false)
		if err != nil {
			return false, err
		}
		term = term || t
		n++
	}
	if n == 0 {
		return false, terr("at least one statement is required here")
	}
	return term, nil
}

func (c *checker) block(ss []pt.Stmt, loop bool) (bool, error) {
	c.push(loop, false, nil)
	term, err := c.stmts(ss)
	if err != nil {
		return false, err
	}
	return term, c.pop()
}

func (c *checker) assignable(target *pt.Type, x pt.Expr) error {
	t, k, err := TypeOf(x, c)
	if err != nil {
		return err
	}
	switch Assignable(target, t, k) {
	case Yes:
		return nil
	case Latitude:
		if c.lat == nil {
			c.lat = &LatitudeErr{"conversion of a constant expression"}
		}
		return nil
	}
	return terr("target of type %s does not accept %s (%s)", target, t, k)
}

func (c *checker) targetType(e pt.Expr) (*pt.Type, error) {
	switch v := e.(type) {
	case pt.Var:
		if v.Name == "_" {
			return nil, terr("assignment to _ not allowed")
		}
		if _, isFn := c.sigs[v.Name]; isFn {
			return nil, terr("cannot assign to function %q", v.Name)
		}
		t, ok := c.VarType(v.Name)
		if !ok {
			return nil, terr("unknown variable name %q", v.Name)
		}
		return t, nil
	case pt.Index:
		t, err := c.targetType(v.X)
		if err != nil {
			return nil, err
		}
		it, _, err := TypeOf(v.I, c)
		if err != nil {
			return nil, err
		}
		switch t.K {
		case pt.Arr:
			if it.K != pt.Num {
				return nil, terr("array index expects num")
			}
			return t.Sub, nil
		case pt.Map:
			if it.K != pt.Str {
				return nil, terr("map index expects string")
			}
			return t.Sub, nil
		case pt.Str:
			return nil, terr("cannot index string on left side of =")
		}
		return nil, terr("only array and map can be indexed in a target, found %s", t)
	case pt.Dot:
		t, err := c.targetType(v.X)
		if err != nil {
			return nil, err
		}
		if t.K != pt.Map {
			return nil, terr("field access expects map, found %s", t)
		}
		return t.Sub, nil
	}
	return nil, terr("invalid assignment target")
}

func (c *checker) stmt(s pt.Stmt, top bool) (terminates bool, err error) {
	switch v := s.(type) {
	case pt.TypedDecl:
		return false, c.declare(v.Name, v.T, false)
	case pt.InferDecl:
		t, _, err := TypeOf(v.X, c)
		if err != nil {
			return false, err
		}
		if t.K == pt.None {
			return false, terr("invalid declaration, function has no return value")
		}
		return false, c.declare(v.Name, t.Infer(), false)
	case pt.Assign:
		t, err := c.targetType(v.Target)
		if err != nil {
			return false, err
		}
		return false, c.assignable(t, v.X)
	case pt.CallStmt:
		sig, ok := c.sigs[v.C.Name]
		if !ok {
			return false, terr("unknown function %q", v.C.Name)
		}
		err := CheckArgs(v.C, sig, c)
		if le, ok := err.(*LatitudeErr); ok {
			if c.lat == nil {
				c.lat = le
			}
			err = nil
		}
		return false, err
	case pt.If:
		all := v.Else != nil
		for i, cond := range v.Conds {
			c.push(false, false, nil)
			t, _, err := TypeOf(cond, c)
			if err != nil {
				return false, err
			}
			if t.K != pt.Bool {
				return false, terr("expected condition of type bool, found %s", t)
			}
			term, err := c.stmts(v.Blocks[i])
			if err != nil {
				return false, err
			}
			if err := c.pop(); err != nil {
				return false, err
			}
			all = all && term
		}
		if v.Else != nil {
			term, err := c.block(v.Else, false)
			if err != nil {
				return false, err
			}
			all = all && term
		}
		return all, nil
	case pt.While:
		c.push(true, false, nil)
		t, _, err := TypeOf(v.Cond, c)
		if err != nil {
			return false, err
		}
		if t.K != pt.Bool {
			return false, terr("expected condition of type bool, found %s", t)
		}
		if _, err := c.stmts(v.Body); err != nil {
			return false, err
		}
		return false, c.pop()
	case pt.For:
		c.push(true, false, nil)
		if len(v.Range) == 0 {
			return false, terr("range cannot be empty")
		}
		t0, _, err := TypeOf(v.Range[0], c)
		if err != nil {
			return false, err
		}
		var lt *pt.Type
		switch t0.K {
		case pt.Num:
			if len(v.Range) > 3 {
				return false, terr("range can take up to 3 num arguments")
			}
			for _, r := range v.Range[1:] {
				t, _, err := TypeOf(r, c)
				if err != nil {
					return false, err
				}
				if t.K != pt.Num {
					return false, terr("range expects num")
				}
			}
			lt = pt.TNum
		case pt.Str, pt.Map:
			lt = pt.TStr
		case pt.Arr:
			lt = t0.Infer().Sub
		default:
			return false, terr("expected num, string, array or map after range, found %s", t0)
		}
		if t0.K != pt.Num && len(v.Range) > 1 {
			return false, terr("range with more than one argument must be num")
		}
		if v.Var != "" {
			// the loop variable is declared before the range operands are evaluated in the implementation;
			// generated programs never use the loop variable's name in the operands
			if err := c.declare(v.Var, lt, false); err != nil {
				return false, err
			}
		}
		if _, err := c.stmts(v.Body); err != nil {
			return false, err
		}
		return false, c.pop()
	case pt.Break:
		if !c.inLoop() {
			return false, terr("break is not in a loop")
		}
		return true, nil
	case pt.Return:
		if !c.cur.hasRet {
			return false, terr("return statement not allowed here")
		}
		if v.X == nil {
			if c.cur.ret.K != pt.None {
				return false, terr("expected return value of type %s", c.cur.ret)
			}
			return true, nil
		}
		if c.cur.ret.K == pt.None {
			return false, terr("expected no return value")
		}
		return true, c.assignable(c.cur.ret, v.X)
	case pt.Func:
		return false, terr("functions can only be defined at the top level")
	case pt.On:
		return false, terr("event handlers can only be defined at the top level")
	case pt.Comment, pt.Blank:
		return false, nil
	case pt.Raw:
		return false, terr("raw text")
	}
	return false, terr("unknown statement %T", s)
}
