package ref

import "time"

func timeDuration(ns int64) time.Duration { return time.Duration(ns) }
