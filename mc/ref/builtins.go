package ref

import (
	"fmt"
	"math"
	"strconv"
	"strings"
	"unicode"

	"verif/mc/pt"
)

func sig(ret *pt.Type, params ...*pt.Type) *Sig { return &Sig{Params: params, Ret: ret} }
func vsig(ret *pt.Type, el *pt.Type) *Sig {
	return &Sig{Params: []*pt.Type{el}, Variadic: true, Ret: ret}
}

var (
	n_ = pt.TNum
	s_ = pt.TStr
	b_ = pt.TBool
	a_ = pt.TAny
	x_ = pt.TNone
)

// BuiltinSigs are the documented signatures (docs/builtins.md "Reference" lines).
var BuiltinSigs = map[string]*Sig{
	"print": vsig(x_, a_), "printf": vsig(x_, a_), "read": sig(s_), "cls": sig(x_),
	"sprint": vsig(s_, a_), "sprintf": vsig(s_, a_), "repr": vsig(s_, a_),
	"join":  {Params: []*pt.Type{pt.TEArr, s_}, Ret: s_, Generic: true},
	"split": sig(pt.ArrOf(s_), s_, s_), "upper": sig(s_, s_), "lower": sig(s_, s_), "index": sig(n_, s_, s_),
	"startswith": sig(b_, s_, s_), "endswith": sig(b_, s_, s_), "trim": sig(s_, s_, s_), "replace": sig(s_, s_, s_, s_),
	"str2num": sig(n_, s_), "str2bool": sig(b_, s_), "typeof": sig(s_, a_), "len": sig(n_, a_),
	"has":   {Params: []*pt.Type{pt.TEMap, s_}, Ret: b_, Generic: true},
	"del":   {Params: []*pt.Type{pt.TEMap, s_}, Ret: x_, Generic: true},
	"sleep": sig(x_, n_), "exit": sig(x_, n_), "panic": sig(x_, s_), "test": vsig(x_, a_),
	"rand": sig(n_, n_), "rand1": sig(n_),
	"min": sig(n_, n_, n_), "max": sig(n_, n_, n_), "pow": sig(n_, n_, n_), "atan2": sig(n_, n_, n_),
	"abs": sig(n_, n_), "floor": sig(n_, n_), "ceil": sig(n_, n_), "round": sig(n_, n_), "log": sig(n_, n_),
	"sqrt": sig(n_, n_), "sin": sig(n_, n_), "cos": sig(n_, n_),
	// graphics (effects only)
	"move": sig(x_, n_, n_), "line": sig(x_, n_, n_), "rect": sig(x_, n_, n_), "circle": sig(x_, n_), "width": sig(x_, n_),
	"color": sig(x_, s_), "colour": sig(x_, s_), "stroke": sig(x_, s_), "fill": sig(x_, s_), "linecap": sig(x_, s_), "text": sig(x_, s_),
	"hsl": vsig(s_, n_), "clear": vsig(x_, s_), "grid": sig(x_), "gridn": sig(x_, n_, s_),
	"poly": vsig(x_, pt.ArrOf(n_)), "ellipse": vsig(x_, n_), "dash": vsig(x_, n_), "font": sig(x_, pt.MapOf(a_)),
}

// BuiltinFn is the reference implementation of a built-in.
type BuiltinFn func(in *Interp, args []Val) (Val, error)

func g(x float64) string { return strconv.FormatFloat(x, 'g', -1, 64) }

func strs(args []Val) []string {
	out := make([]string, len(args))
	for i, a := range args {
		out[i] = Str(a)
	}
	return out
}

func num1(f func(float64) float64) BuiltinFn {
	return func(_ *Interp, a []Val) (Val, error) { return f(a[0].(float64)), nil }
}

func num2(f func(a, b float64) float64) BuiltinFn {
	return func(_ *Interp, a []Val) (Val, error) { return f(a[0].(float64), a[1].(float64)), nil }
}

func unAny(v Val) Val {
	if a, ok := v.(AnyV); ok {
		return a.V
	}
	return v
}

// Builtins are the documented behaviours of the built-in functions.
var Builtins map[string]BuiltinFn

func init() {
	Builtins = map[string]BuiltinFn{
		"print": func(in *Interp, a []Val) (Val, error) {
			in.eff("print:" + strings.Join(strs(a), " ") + "\n")
			return nil, nil
		},
		"read": func(in *Interp, _ []Val) (Val, error) {
			s := ""
			if in.inPos < len(in.Inputs) {
				s = in.Inputs[in.inPos]
				in.inPos++
			}
			in.eff("read:" + s)
			return s, nil
		},
		"cls": func(in *Interp, _ []Val) (Val, error) { in.eff("cls"); return nil, nil },
		"sleep": func(in *Interp, a []Val) (Val, error) {
			in.eff("sleep:" + durString(a[0].(float64)))
			return nil, nil
		},
		"sprint": func(_ *Interp, a []Val) (Val, error) { return strings.Join(strs(a), " "), nil },
		"printf": func(in *Interp, a []Val) (Val, error) {
			s, err := Sprintf("printf", a)
			if err != nil {
				return nil, err
			}
			in.eff("print:" + s)
			return nil, nil
		},
		"sprintf": func(_ *Interp, a []Val) (Val, error) {
			s, err := Sprintf("sprintf", a)
			if err != nil {
				return nil, err
			}
			return s, nil
		},
		"repr": func(_ *Interp, a []Val) (Val, error) {
			out := make([]string, len(a))
			for i, x := range a {
				out[i] = Repr(x)
			}
			return strings.Join(out, " "), nil
		},
		"join": func(_ *Interp, a []Val) (Val, error) { return strings.Join(strs(a[0].(*Arr).Els), a[1].(string)), nil },
		"split": func(_ *Interp, a []Val) (Val, error) {
			out := &Arr{}
			for _, p := range Split(a[0].(string), a[1].(string)) {
				out.Els = append(out.Els, p)
			}
			return out, nil
		},
		"upper": func(_ *Interp, a []Val) (Val, error) { return mapRunes(a[0].(string), unicode.ToUpper), nil },
		"lower": func(_ *Interp, a []Val) (Val, error) { return mapRunes(a[0].(string), unicode.ToLower), nil },
		"index": func(_ *Interp, a []Val) (Val, error) { return float64(RuneIndex(a[0].(string), a[1].(string))), nil },
		"startswith": func(_ *Interp, a []Val) (Val, error) {
			s, p := []rune(a[0].(string)), []rune(a[1].(string))
			return len(p) <= len(s) && string(s[:len(p)]) == string(p), nil
		},
		"endswith": func(_ *Interp, a []Val) (Val, error) {
			s, p := []rune(a[0].(string)), []rune(a[1].(string))
			return len(p) <= len(s) && string(s[len(s)-len(p):]) == string(p), nil
		},
		"trim": func(_ *Interp, a []Val) (Val, error) {
			s, cut := []rune(a[0].(string)), a[1].(string)
			for len(s) > 0 && strings.ContainsRune(cut, s[0]) {
				s = s[1:]
			}
			for len(s) > 0 && strings.ContainsRune(cut, s[len(s)-1]) {
				s = s[:len(s)-1]
			}
			return string(s), nil
		},
		"replace": func(_ *Interp, a []Val) (Val, error) {
			return Replace(a[0].(string), a[1].(string), a[2].(string)), nil
		},
		"str2num": func(in *Interp, a []Val) (Val, error) {
			s := a[0].(string)
			f, ok := ParseNum(s)
			if !ok {
				in.setErr(true, fmt.Sprintf("str2num: cannot parse %q", s))
				return 0.0, nil
			}
			in.setErr(false, "")
			return f, nil
		},
		"str2bool": func(in *Interp, a []Val) (Val, error) {
			s := a[0].(string)
			switch s {
			case "true", "True", "TRUE", "1":
				in.setErr(false, "")
				return true, nil
			case "false", "False", "FALSE", "0":
				in.setErr(false, "")
				return false, nil
			}
			in.setErr(true, fmt.Sprintf("str2bool: cannot parse %q", s))
			return false, nil
		},
		"typeof": func(_ *Interp, a []Val) (Val, error) { return a[0].(AnyV).T.String(), nil },
		"len": func(_ *Interp, a []Val) (Val, error) {
			switch x := unAny(a[0]).(type) {
			case string:
				return float64(len([]rune(x))), nil
			case *Arr:
				return float64(len(x.Els)), nil
			case *Map:
				return float64(len(x.M)), nil
			}
			return nil, rterr("panic:bad-arguments", "len of %v", a[0].(AnyV).T)
		},
		"has": func(_ *Interp, a []Val) (Val, error) { _, ok := a[0].(*Map).M[a[1].(string)]; return ok, nil },
		"del": func(_ *Interp, a []Val) (Val, error) { a[0].(*Map).Del(a[1].(string)); return nil, nil },
		"exit": func(_ *Interp, a []Val) (Val, error) {
			return nil, rterr("exit:"+strconv.Itoa(int(a[0].(float64))), "exit")
		},
		"panic": func(_ *Interp, a []Val) (Val, error) { return nil, rterr("panic:user", "%s", a[0].(string)) },
		"test":  testBuiltin,
		"rand": func(in *Interp, a []Val) (Val, error) {
			n := a[0].(float64)
			if !(n > 0) {
				return nil, rterr("panic:bad-arguments", "rand %v", n)
			}
			if in.RandInts != nil && n >= 1 && n <= math.MaxInt32 {
				return float64(in.RandInts(int32(n))), nil
			}
			return 0.0, nil
		},
		"rand1": func(in *Interp, _ []Val) (Val, error) {
			if in.RandFloat != nil {
				return in.RandFloat(), nil
			}
			return 0.0, nil
		},
		"min": num2(math.Min), "max": num2(math.Max), "pow": num2(math.Pow), "atan2": num2(math.Atan2),
		"abs": num1(math.Abs), "floor": num1(math.Floor), "ceil": num1(math.Ceil), "round": num1(math.Round),
		"log": num1(math.Log), "sqrt": num1(math.Sqrt), "sin": num1(math.Sin), "cos": num1(math.Cos),

		"move": func(in *Interp, a []Val) (Val, error) {
			in.eff("move:" + g(a[0].(float64)) + "," + g(a[1].(float64)))
			return nil, nil
		},
		"line": func(in *Interp, a []Val) (Val, error) {
			in.eff("line:" + g(a[0].(float64)) + "," + g(a[1].(float64)))
			return nil, nil
		},
		"rect": func(in *Interp, a []Val) (Val, error) {
			in.eff("rect:" + g(a[0].(float64)) + "," + g(a[1].(float64)))
			return nil, nil
		},
		"circle":  func(in *Interp, a []Val) (Val, error) { in.eff("circle:" + g(a[0].(float64))); return nil, nil },
		"width":   func(in *Interp, a []Val) (Val, error) { in.eff("width:" + g(a[0].(float64))); return nil, nil },
		"color":   func(in *Interp, a []Val) (Val, error) { in.eff("color:" + a[0].(string)); return nil, nil },
		"colour":  func(in *Interp, a []Val) (Val, error) { in.eff("color:" + a[0].(string)); return nil, nil },
		"stroke":  func(in *Interp, a []Val) (Val, error) { in.eff("stroke:" + a[0].(string)); return nil, nil },
		"fill":    func(in *Interp, a []Val) (Val, error) { in.eff("fill:" + a[0].(string)); return nil, nil },
		"linecap": func(in *Interp, a []Val) (Val, error) { in.eff("linecap:" + a[0].(string)); return nil, nil },
		"text":    func(in *Interp, a []Val) (Val, error) { in.eff("text:" + a[0].(string)); return nil, nil },
		"grid":    func(in *Interp, _ []Val) (Val, error) { in.eff("gridn:10,hsl(0deg 100% 0% / 50%)"); return nil, nil },
		"gridn": func(in *Interp, a []Val) (Val, error) {
			in.eff("gridn:" + g(a[0].(float64)) + "," + a[1].(string))
			return nil, nil
		},
		"clear": func(in *Interp, a []Val) (Val, error) {
			if len(a) > 1 {
				return nil, rterr("panic:bad-arguments", "clear takes 0 or 1 arguments")
			}
			c := ""
			if len(a) == 1 {
				c = a[0].(string)
			}
			in.eff("clear:" + c)
			return nil, nil
		},
	}
}

func durString(secs float64) string {
	// the platform receives a duration; it is rendered like Go's time.Duration for comparison
	d := int64(secs * 1e9)
	return durFmt(d)
}

func (in *Interp) setErr(e bool, msg string) {
	in.global.vars["err"].V = e
	in.global.vars["errmsg"].V = msg
}

func mapRunes(s string, f func(rune) rune) string {
	rs := []rune(s)
	for i, r := range rs {
		rs[i] = f(r)
	}
	return string(rs)
}

// RuneIndex is the code-point position of the first occurrence of sub in s, or -1.
func RuneIndex(s, sub string) int {
	rs, rsub := []rune(s), []rune(sub)
	for i := 0; i+len(rsub) <= len(rs); i++ {
		if string(rs[i:i+len(rsub)]) == sub {
			return i
		}
	}
	return -1
}

// Split implements the documented split: by separator; empty separator: after each character;
// both empty: empty list.
func Split(s, sep string) []string {
	if sep == "" {
		out := []string{}
		for _, r := range []rune(s) {
			out = append(out, string(r))
		}
		return out
	}
	out := []string{}
	rs, rsep := []rune(s), []rune(sep)
	start := 0
	for i := 0; i+len(rsep) <= len(rs); {
		if string(rs[i:i+len(rsep)]) == sep {
			out = append(out, string(rs[start:i]))
			i += len(rsep)
			start = i
			continue
		}
		i++
	}
	return append(out, string(rs[start:]))
}

// Replace replaces all non-overlapping occurrences of old (left to right).
func Replace(s, old, new string) string {
	if old == "" {
		// between every character and at both ends (documented only as "all occurrences"; latitude handled by callers)
		var sb strings.Builder
		sb.WriteString(new)
		for _, r := range []rune(s) {
			sb.WriteRune(r)
			sb.WriteString(new)
		}
		return sb.String()
	}
	return strings.Join(Split(s, old), new)
}

// ParseNum accepts the decimal number syntax; ok=false for anything that is not a valid finite number.
func ParseNum(s string) (float64, bool) {
	f, err := strconv.ParseFloat(s, 64)
	if err != nil {
		return 0, false
	}
	return f, true
}

// IsIdentKey reports whether s is a valid identifier or keyword (letter or underscore, then letters, digits, underscores).
func IsIdentKey(s string) bool {
	if s == "" {
		return false
	}
	for i, r := range s {
		letter := unicode.IsLetter(r) || r == '_'
		if i == 0 && !letter {
			return false
		}
		if !letter && !unicode.IsDigit(r) {
			return false
		}
	}
	return true
}

// Repr renders a value as Evy code.
func Repr(v Val) string {
	switch x := v.(type) {
	case string:
		return strconv.Quote(x)
	case AnyV:
		return Repr(x.V)
	case *Arr:
		parts := make([]string, len(x.Els))
		for i, e := range x.Els {
			parts[i] = Repr(e)
		}
		return "[" + strings.Join(parts, " ") + "]"
	case *Map:
		parts := make([]string, 0, len(x.Keys))
		for _, k := range x.Keys {
			key := k
			if !IsIdentKey(k) {
				key = strconv.Quote(k)
			}
			parts = append(parts, key+":"+Repr(x.M[k]))
		}
		return "{" + strings.Join(parts, " ") + "}"
	}
	return Str(v)
}

// Same is the documented sameness of test: equal values, want may be more specific than got.
func Same(want, got Val) bool {
	want, got = unAny(want), unAny(got)
	switch g := got.(type) {
	case *Arr:
		w, ok := want.(*Arr)
		if !ok || len(w.Els) != len(g.Els) {
			return false
		}
		for i := range w.Els {
			if !Same(w.Els[i], g.Els[i]) {
				return false
			}
		}
		return true
	case *Map:
		w, ok := want.(*Map)
		if !ok || len(w.M) != len(g.M) {
			return false
		}
		for k, v := range w.M {
			gv, ok := g.M[k]
			if !ok || !Same(v, gv) {
				return false
			}
		}
		return true
	}
	return Equal(want, got)
}

func testBuiltin(in *Interp, a []Val) (Val, error) {
	if len(a) == 0 {
		return nil, rterr("panic:bad-arguments", "test expects at least one argument")
	}
	if len(a) == 1 {
		if _, ok := unAny(a[0]).(bool); !ok {
			return nil, rterr("panic:bad-arguments", "test with one argument expects bool")
		}
	}
	if len(a) > 2 {
		if _, ok := unAny(a[2]).(string); !ok {
			return nil, rterr("panic:bad-arguments", "third argument must be a string message")
		}
	}
	in.TestTotal++
	ok := false
	if len(a) == 1 {
		ok = unAny(a[0]).(bool)
	} else {
		ok = Same(a[0], a[1])
	}
	if !ok {
		in.TestFails++
		// the message reported with the failed test: three arguments - the message as it is; more - a format string
		msg := ""
		if len(a) == 3 {
			msg = unAny(a[2]).(string)
		} else if len(a) > 3 {
			m, err := Sprintf("test", a[2:])
			if err != nil {
				m = "\x00" // not defined by the documentation
			}
			msg = m
		}
		in.TestMsgs = append(in.TestMsgs, msg)
		if in.FailFast {
			return nil, rterr("test-fail", "failed test")
		}
	}
	return nil, nil
}

// Sprintf implements the documented verbs %v %t %f %e %s %q %% with flags '-' '0', width and precision.
// A verb that does not match its argument's type is the documented panic. Anything the documentation
// does not define (other verbs, wrong argument counts, %v of a number whose print form differs from
// Go's shortest form) yields a LatitudeErr.
func Sprintf(name string, a []Val) (string, error) {
	if len(a) < 1 {
		return "", rterr("panic:bad-arguments", "%s takes at least 1 argument", name)
	}
	format, ok := unAny(a[0]).(string)
	if !ok {
		return "", rterr("panic:bad-arguments", "first argument of %s must be a string", name)
	}
	args := a[1:]
	var sb strings.Builder
	rs := []rune(format)
	ai := 0
	for i := 0; i < len(rs); i++ {
		if rs[i] != '%' {
			sb.WriteRune(rs[i])
			continue
		}
		j := i + 1
		spec := "%"
		for j < len(rs) && strings.ContainsRune("-0", rs[j]) {
			spec += string(rs[j])
			j++
		}
		for j < len(rs) && rs[j] >= '0' && rs[j] <= '9' {
			spec += string(rs[j])
			j++
		}
		if j < len(rs) && rs[j] == '.' {
			spec += "."
			j++
			for j < len(rs) && rs[j] >= '0' && rs[j] <= '9' {
				spec += string(rs[j])
				j++
			}
		}
		if j >= len(rs) {
			return "", &LatitudeErr{"format string ends inside a specifier"}
		}
		verb := rs[j]
		i = j
		if verb == '%' {
			if spec != "%" {
				return "", &LatitudeErr{"flags on %%"}
			}
			sb.WriteByte('%')
			continue
		}
		if !strings.ContainsRune("vtfesq", verb) {
			return "", &LatitudeErr{"undocumented verb %" + string(verb)}
		}
		if ai >= len(args) {
			return "", &LatitudeErr{"missing argument"}
		}
		arg := unAny(args[ai])
		ai++
		spec += string(verb)
		mismatch := func() (string, error) {
			return "", rterr("panic:bad-arguments", "%s: argument %d does not match %%%c", name, ai, verb)
		}
		switch verb {
		case 't':
			if b, ok := arg.(bool); ok {
				sb.WriteString(fmt.Sprintf(spec, b))
			} else {
				return mismatch()
			}
		case 'f', 'e':
			if f, ok := arg.(float64); ok {
				sb.WriteString(fmt.Sprintf(spec, f))
			} else {
				return mismatch()
			}
		case 's', 'q':
			switch x := arg.(type) {
			case string:
				sb.WriteString(fmt.Sprintf(spec, x))
			case *Arr, *Map:
				// composites are rendered in their print form by the implementation; the documentation only
				// speaks of "string value" - not judged
				return "", &LatitudeErr{"%s / %q of a composite value"}
			default:
				return mismatch()
			}
		case 'v':
			switch x := arg.(type) {
			case float64:
				if pt.FormatNum(x) != fmt.Sprint(x) && !strings.Contains(spec, ".") {
					return "", &LatitudeErr{"%v of a number whose default form is not defined"}
				}
				sb.WriteString(fmt.Sprintf(spec, x))
			case string:
				sb.WriteString(fmt.Sprintf(spec, x))
			case bool:
				sb.WriteString(fmt.Sprintf(spec, x))
			default:
				sb.WriteString(fmt.Sprintf(spec, Str(arg)))
			}
		}
	}
	if ai != len(args) {
		return "", &LatitudeErr{"extra arguments"}
	}
	return sb.String(), nil
}

func durFmt(ns int64) string {
	// mirrors time.Duration.String without importing time in the reference's semantic core
	return fmt.Sprint(timeDuration(ns))
}
