package ref

import (
	"errors"

	"verif/mc/pt"
)

// Outcome of a reference run.
type Outcome struct {
	Trace  []string
	Class  string // ok | panic:<kind> | exit:<n> | test-fail | budget | latitude | ref-type-error | resource
	Msg    string
	Steps  int
	Interp *Interp
}

// Opts configures a reference run.
type Opts struct {
	Inputs        []string
	FailFast      bool
	NoTestSummary bool
	Budget        int
}

// RunProg runs a program on the reference interpreter.
func RunProg(p *pt.Prog, o Opts) Outcome {
	in := NewInterp(p)
	in.Inputs, in.FailFast, in.NoTestSummary = o.Inputs, o.FailFast, o.NoTestSummary
	if o.Budget > 0 {
		in.Budget = o.Budget
	}
	err := in.Run(p)
	out := Outcome{Trace: in.Trace, Class: ClassOf(err), Steps: in.Steps, Interp: in}
	if err != nil {
		out.Msg = err.Error()
	}
	return out
}

// ClassOf maps a reference error to the class vocabulary.
func ClassOf(err error) string {
	if err == nil {
		return "ok"
	}
	var re *RtErr
	if errors.As(err, &re) {
		return re.Class
	}
	var le *LatitudeErr
	if errors.As(err, &le) {
		return "latitude"
	}
	return "ref-type-error"
}

// Global returns the value of a global variable (nil if unset).
func (in *Interp) Global(name string) Val {
	if c, ok := in.global.vars[name]; ok {
		return c.V
	}
	return nil
}
