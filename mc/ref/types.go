// Package ref holds the reference models (oracles): the static typing rules of
// docs/spec.md, a naive interpreter over pt trees, the documented behaviour of
// the built-ins. Nothing here shares code with /repo.
package ref

import (
	"fmt"

	"verif/mc/pt"
)

// ValKind classifies a value expression for assignability (spec §Assignability).
type ValKind int

// Value kinds.
const (
	KVar       ValKind = iota // variable-like: contains a variable, call, index/field/assertion of one …
	KConst                    // a literal made of constants and empty literals
	KConstExpr                // a non-literal expression that contains only constants (spec: "treated like a constant")
	KEmpty                    // [] {} and nestings of only those
)

func (k ValKind) String() string { return [...]string{"var", "const", "constexpr", "empty"}[k] }

// Tri is a three-valued verdict: the specification may leave latitude.
type Tri int

// Verdicts.
const (
	No Tri = iota
	Yes
	Latitude // specification text and property statement do not settle it; not judged
)

func (t Tri) String() string { return [...]string{"reject", "accept", "latitude"}[t] }

// Sig is a function signature.
type Sig struct {
	Params   []*pt.Type
	Variadic bool     // single Params[0] is the element type of a variadic parameter
	Ret      *pt.Type // pt.TNone for procedures
	Generic  bool     // first parameter accepts any array (join) / any map (has, del)
}

// TEnv is the static environment TypeOf needs.
type TEnv interface {
	VarType(name string) (*pt.Type, bool)
	Func(name string) (*Sig, bool)
}

// TypeErr is a static error.
type TypeErr struct{ Msg string }

func (e *TypeErr) Error() string { return e.Msg }

func terr(f string, a ...any) error { return &TypeErr{fmt.Sprintf(f, a...)} }

// LatitudeErr marks a construct whose static status the specification leaves open.
type LatitudeErr struct{ Msg string }

func (e *LatitudeErr) Error() string { return "latitude: " + e.Msg }

func joinKinds(a, b ValKind) ValKind {
	if a == KVar || b == KVar {
		return KVar
	}
	if a == KEmpty && b == KEmpty {
		return KEmpty
	}
	if a == KConstExpr || b == KConstExpr {
		return KConstExpr
	}
	return KConst
}

// join is the "strictest common type" of two element types (spec §Variables and Declarations).
// Composite types combine structurally only when both come from constant/empty literals.
func join(t, u *pt.Type, kt, ku ValKind) *pt.Type {
	if t.Eq(u) {
		return t
	}
	constLike := func(k ValKind) bool { return k == KConst || k == KEmpty }
	if t.Composite() && u.Composite() && t.K == u.K {
		// an untyped empty literal takes the type of its sibling, whatever the sibling is
		switch {
		case u.Sub == nil && ku == KEmpty:
			return t
		case t.Sub == nil && kt == KEmpty:
			return u
		}
		if constLike(kt) && constLike(ku) {
			switch {
			case u.Sub == nil:
				return t
			case t.Sub == nil:
				return u
			}
			return &pt.Type{K: t.K, Sub: join(t.Sub, u.Sub, kt, ku)}
		}
	}
	return pt.TAny
}

// matches: operand compatibility of binary operators (identical, or an untyped empty composite
// against a composite of the same kind).
func matches(t, u *pt.Type) bool {
	if t.K != u.K {
		return false
	}
	if !t.Composite() {
		return true
	}
	if t.Sub == nil || u.Sub == nil {
		return true
	}
	return matches(t.Sub, u.Sub)
}

// TypeOf computes static type and kind of an expression, or an error when the expression is ill-typed.
func TypeOf(e pt.Expr, env TEnv) (*pt.Type, ValKind, error) {
	switch v := e.(type) {
	case pt.NumLit:
		return pt.TNum, KConst, nil
	case pt.StrLit:
		return pt.TStr, KConst, nil
	case pt.BoolLit:
		return pt.TBool, KConst, nil
	case pt.Var:
		t, ok := env.VarType(v.Name)
		if !ok {
			return nil, 0, terr("unknown variable %q", v.Name)
		}
		return t, KVar, nil
	case pt.Group:
		t, k, err := TypeOf(v.X, env)
		if err == nil && k == KConst && t.Composite() {
			k = KConstExpr // a parenthesised literal is an expression, not a literal
		}
		return t, k, err
	case pt.Unary:
		t, k, err := TypeOf(v.X, env)
		if err != nil {
			return nil, 0, err
		}
		if (v.Op == "-" && t.K != pt.Num) || (v.Op == "!" && t.K != pt.Bool) {
			return nil, 0, terr("unary %s on %s", v.Op, t)
		}
		return t, k, nil
	case pt.Binary:
		return typeOfBinary(v, env)
	case pt.ArrLit:
		if len(v.Els) == 0 {
			return pt.TEArr, KEmpty, nil
		}
		sub, k, err := joinList(v.Els, env)
		if err != nil {
			return nil, 0, err
		}
		return pt.ArrOf(sub), k, nil
	case pt.MapLit:
		if len(v.Vals) == 0 {
			return pt.TEMap, KEmpty, nil
		}
		seen := map[string]bool{}
		for _, key := range v.Keys {
			if seen[key] {
				return nil, 0, terr("duplicated map key %q", key)
			}
			seen[key] = true
		}
		sub, k, err := joinList(v.Vals, env)
		if err != nil {
			return nil, 0, err
		}
		return pt.MapOf(sub), k, nil
	case pt.Index:
		t, k, err := TypeOf(v.X, env)
		if err != nil {
			return nil, 0, err
		}
		it, _, err := TypeOf(v.I, env)
		if err != nil {
			return nil, 0, err
		}
		rk := KVar
		if k != KVar {
			rk = KConstExpr
		}
		switch t.K {
		case pt.Arr:
			if it.K != pt.Num {
				return nil, 0, terr("array index expects num, found %s", it)
			}
			if t.Sub == nil {
				return nil, 0, &LatitudeErr{"index of the untyped empty array"}
			}
			return t.Sub, rk, nil
		case pt.Str:
			if it.K != pt.Num {
				return nil, 0, terr("string index expects num, found %s", it)
			}
			return pt.TStr, rk, nil
		case pt.Map:
			if it.K != pt.Str {
				return nil, 0, terr("map index expects string, found %s", it)
			}
			if t.Sub == nil {
				return nil, 0, &LatitudeErr{"index of the untyped empty map"}
			}
			return t.Sub, rk, nil
		}
		return nil, 0, terr("only array, string and map can be indexed, found %s", t)
	case pt.Slice:
		t, k, err := TypeOf(v.X, env)
		if err != nil {
			return nil, 0, err
		}
		if t.K != pt.Arr && t.K != pt.Str {
			return nil, 0, terr("only array and string can be sliced, found %s", t)
		}
		for _, b := range []pt.Expr{v.Lo, v.Hi} {
			if b == nil {
				continue
			}
			bt, _, err := TypeOf(b, env)
			if err != nil {
				return nil, 0, err
			}
			if bt.K != pt.Num {
				return nil, 0, terr("slice bound expects num, found %s", bt)
			}
		}
		rk := KVar
		if k != KVar {
			rk = KConstExpr
		}
		return t, rk, nil
	case pt.Dot:
		t, k, err := TypeOf(v.X, env)
		if err != nil {
			return nil, 0, err
		}
		if t.K != pt.Map {
			return nil, 0, terr("field access expects map, found %s", t)
		}
		if t.Sub == nil {
			return nil, 0, &LatitudeErr{"field of the untyped empty map"}
		}
		rk := KVar
		if k != KVar {
			rk = KConstExpr
		}
		return t.Sub, rk, nil
	case pt.Assert:
		t, _, err := TypeOf(v.X, env)
		if err != nil {
			return nil, 0, err
		}
		if t.K != pt.Any {
			return nil, 0, terr("value of type assertion must be any, not %s", t)
		}
		if v.T.K == pt.Any {
			return nil, 0, terr("cannot type assert to any")
		}
		return v.T, KVar, nil
	case pt.Call:
		sig, ok := env.Func(v.Name)
		if !ok {
			return nil, 0, terr("unknown function %q", v.Name)
		}
		if err := CheckArgs(v, sig, env); err != nil {
			return nil, 0, err
		}
		return sig.Ret, KVar, nil
	}
	return nil, 0, terr("unknown expression %T", e)
}

func joinList(els []pt.Expr, env TEnv) (*pt.Type, ValKind, error) {
	var sub *pt.Type
	var kind ValKind
	for i, el := range els {
		t, k, err := TypeOf(el, env)
		if err != nil {
			return nil, 0, err
		}
		if t.K == pt.None {
			return nil, 0, terr("element without value")
		}
		if i == 0 {
			sub, kind = t, k
			continue
		}
		if sub.Composite() && t.Composite() && sub.K == t.K && !sub.Eq(t) {
			nonConst := func(k ValKind) bool { return k == KVar || k == KConstExpr }
			if (k == KEmpty && nonConst(kind)) || (kind == KEmpty && nonConst(k)) {
				// "strictest possible type" would adopt the sibling's type; the implementation documents that
				// variable-typed composites never combine (Type.Fixed) and infers any. Not judged.
				return nil, 0, &LatitudeErr{"untyped empty literal next to a variable-typed composite element"}
			}
		}
		sub = join(sub, t, kind, k)
		kind = joinKinds(kind, k)
	}
	if kind == KConstExpr {
		// a literal whose elements are constant expressions is still a literal made of constants;
		// but non-literal composite elements (e.g. [1]+[2]) cannot be converted element-wise: latitude
		kind = KConst
		for _, el := range els {
			t, k, _ := TypeOf(el, env)
			if k == KConstExpr && t.Composite() {
				kind = KConstExpr
			}
		}
	}
	return sub, kind, nil
}

func typeOfBinary(v pt.Binary, env TEnv) (*pt.Type, ValKind, error) {
	lt, lk, err := TypeOf(v.L, env)
	if err != nil {
		return nil, 0, err
	}
	rt, rk, err := TypeOf(v.R, env)
	if err != nil {
		return nil, 0, err
	}
	k := KVar
	if lk != KVar && rk != KVar {
		k = KConstExpr
		if !lt.Composite() {
			k = KConst // basic constants: kind is irrelevant for assignability
		}
	}
	if lt.K == pt.None || rt.K == pt.None {
		return nil, 0, terr("operand without value")
	}
	if v.Op == "*" && lt.K == pt.Arr {
		if rt.K != pt.Num {
			return nil, 0, terr("array repetition takes num on right, found %s", rt)
		}
		if lt.Sub == nil && lk == KEmpty {
			return lt, KEmpty, nil // []*n is still an untyped empty array
		}
		return lt, k, nil
	}
	if !matches(lt, rt) {
		return nil, 0, terr("mismatched types for %s: %s, %s", v.Op, lt, rt)
	}
	switch v.Op {
	case "+":
		switch lt.K {
		case pt.Num, pt.Str:
			return lt, k, nil
		case pt.Arr:
			res := lt
			if lt.HasBottom() && !rt.HasBottom() {
				res = rt
			} else if lt.HasBottom() && rt.HasBottom() && !lt.Eq(rt) {
				// the plain empty literal [] matches any array type, so it adopts the other operand's; two
				// differently nested empties ([[]] + [{}]) are not settled by the specification
				switch {
				case lt.Sub == nil:
					res = rt
				case rt.Sub == nil:
					res = lt
				default:
					return nil, 0, &LatitudeErr{"concatenation of differently nested untyped empties"}
				}
				return res, KConstExpr, nil // what it converts to is not judged; what it can never be assigned to is
			}
			if lk == KEmpty && rk == KEmpty {
				return res, KEmpty, nil
			}
			return res, k, nil
		}
		return nil, 0, terr("+ takes num, string or array, found %s", lt)
	case "-", "*", "/", "%":
		if lt.K != pt.Num {
			return nil, 0, terr("%s takes num, found %s", v.Op, lt)
		}
		return pt.TNum, k, nil
	case "<", "<=", ">", ">=":
		if lt.K != pt.Num && lt.K != pt.Str {
			return nil, 0, terr("%s takes num or string, found %s", v.Op, lt)
		}
		return pt.TBool, KConst, nil
	case "==", "!=":
		return pt.TBool, KConst, nil
	case "and", "or":
		if lt.K != pt.Bool {
			return nil, 0, terr("%s takes bool, found %s", v.Op, lt)
		}
		return pt.TBool, k, nil
	}
	return nil, 0, terr("unknown operator %s", v.Op)
}

// conv: a constant of type u converts to t (spec §Assignability of constant values).
func conv(t, u *pt.Type) bool {
	if t.K == pt.Any {
		return u.K != pt.None
	}
	if t.K != u.K {
		return false
	}
	if !t.Composite() {
		return true
	}
	if u.Sub == nil {
		return true // empty literal takes the required type
	}
	if t.Sub == nil {
		return false
	}
	return conv(t.Sub, u.Sub)
}

// Assignable decides whether a target of type t accepts a value of type u and kind k.
func Assignable(t, u *pt.Type, k ValKind) Tri {
	if u == nil || u.K == pt.None || t == nil || t.K == pt.None {
		return No
	}
	if t.Eq(u) && !u.HasBottom() {
		return Yes
	}
	if t.K == pt.Any {
		return Yes
	}
	switch k {
	case KVar:
		return No
	case KConst, KEmpty:
		if conv(t, u) {
			return Yes
		}
		return No
	case KConstExpr:
		if !conv(t, u) {
			return No
		}
		if u.HasBottom() && u.Infer().Eq(t) {
			return Latitude
		}
		// spec: constant expressions are treated like constants; the property statement (and the
		// implementation's documented intent) lets only literals convert. Not judged.
		return Latitude
	}
	return No
}

// CheckArgs validates the arguments of a call against a signature.
func CheckArgs(c pt.Call, sig *Sig, env TEnv) error {
	if sig.Variadic {
		for _, a := range c.Args {
			t, k, err := TypeOf(a, env)
			if err != nil {
				return err
			}
			switch Assignable(sig.Params[0], t, k) {
			case No:
				return terr("%q takes variadic arguments of type %s, found %s", c.Name, sig.Params[0], t)
			case Latitude:
				return &LatitudeErr{"argument conversion of a constant expression"}
			}
		}
		return nil
	}
	if len(c.Args) != len(sig.Params) {
		return terr("%q takes %d arguments, found %d", c.Name, len(sig.Params), len(c.Args))
	}
	for i, a := range c.Args {
		t, k, err := TypeOf(a, env)
		if err != nil {
			return err
		}
		if i == 0 && sig.Generic {
			if t.K != sig.Params[0].K {
				return terr("%q takes %s as first argument, found %s", c.Name, sig.Params[0], t)
			}
			continue
		}
		switch Assignable(sig.Params[i], t, k) {
		case No:
			return terr("%q takes argument %d of type %s, found %s", c.Name, i+1, sig.Params[i], t)
		case Latitude:
			return &LatitudeErr{"argument conversion of a constant expression"}
		}
	}
	return nil
}
