// Package checks holds one file per property check plus shared generators.
package checks

import (
	"sort"
	"strings"

	"verif/mc/fw"
	"verif/mc/pt"
)

// ExprGen enumerates typed expression trees with an exact number of operator nodes;
// every production is a choice point of the explorer.
type ExprGen struct {
	C      *fw.Ctx
	Leaves map[string][]pt.Expr // by type string
	NoOps  map[string]bool      // operators to leave out
	memo   map[string]bool
}

var (
	tNumArr = pt.ArrOf(pt.TNum)
	tNumMap = pt.MapOf(pt.TNum)
	tStrArr = pt.ArrOf(pt.TStr)
	tAnyArr = pt.ArrOf(pt.TAny)
)

func (g *ExprGen) feasible(t *pt.Type, b int) bool {
	if b == 0 {
		return len(g.Leaves[t.String()]) > 0
	}
	key := t.String() + "/" + string(rune('0'+b))
	if v, ok := g.memo[key]; ok {
		return v
	}
	if g.memo == nil {
		g.memo = map[string]bool{}
	}
	g.memo[key] = false // cycle guard
	ok := false
	for _, p := range g.prods(t) {
		if p.feas(g, b) {
			ok = true
			break
		}
	}
	g.memo[key] = ok
	return ok
}

// production descriptor: operand types and the node builder
type pdesc struct {
	name string
	ops  []*pt.Type
	mk   func(xs []pt.Expr) pt.Expr
}

func (p pdesc) feas(g *ExprGen, b int) bool {
	if b < 1 {
		return false
	}
	return g.splitFeasible(p.ops, b-1)
}

func (g *ExprGen) splitFeasible(ts []*pt.Type, b int) bool {
	if len(ts) == 0 {
		return b == 0
	}
	for i := 0; i <= b; i++ {
		if g.feasible(ts[0], i) && g.splitFeasible(ts[1:], b-i) {
			return true
		}
	}
	return false
}

func bin(op string) func(xs []pt.Expr) pt.Expr {
	return func(xs []pt.Expr) pt.Expr { return pt.Binary{Op: op, L: xs[0], R: xs[1]} }
}

func (g *ExprGen) prods(t *pt.Type) []pdesc {
	var ps []pdesc
	add := func(name string, mk func(xs []pt.Expr) pt.Expr, ops ...*pt.Type) {
		if g.NoOps[name] {
			return
		}
		ps = append(ps, pdesc{name, ops, mk})
	}
	n, s, b := pt.TNum, pt.TStr, pt.TBool
	switch t.String() {
	case "num":
		for _, op := range []string{"+", "-", "*", "/", "%"} {
			add(op, bin(op), n, n)
		}
		add("neg", func(xs []pt.Expr) pt.Expr { return pt.Unary{Op: "-", X: xs[0]} }, n)
		add("index-arr", func(xs []pt.Expr) pt.Expr { return pt.Index{X: xs[0], I: xs[1]} }, tNumArr, n)
		add("dot", func(xs []pt.Expr) pt.Expr { return pt.Dot{X: xs[0], Key: "a"} }, tNumMap)
		add("index-map", func(xs []pt.Expr) pt.Expr { return pt.Index{X: xs[0], I: xs[1]} }, tNumMap, s)
		add("len-arr", func(xs []pt.Expr) pt.Expr { return pt.Call{Name: "len", Args: xs} }, tNumArr)
		add("assert-num", func(xs []pt.Expr) pt.Expr { return pt.Assert{X: xs[0], T: pt.TNum} }, pt.TAny)
		add("len-any", func(xs []pt.Expr) pt.Expr { return pt.Call{Name: "len", Args: xs} }, tAnyArr)
		add("len-str", func(xs []pt.Expr) pt.Expr { return pt.Call{Name: "len", Args: xs} }, s)
	case "string":
		add("s+", bin("+"), s, s)
		add("index-str", func(xs []pt.Expr) pt.Expr { return pt.Index{X: xs[0], I: xs[1]} }, s, n)
		add("slice-str", func(xs []pt.Expr) pt.Expr { return pt.Slice{X: xs[0], Lo: xs[1], Hi: xs[2]} }, s, n, n)
		add("slice-str-lo", func(xs []pt.Expr) pt.Expr { return pt.Slice{X: xs[0], Lo: xs[1]} }, s, n)
		add("typeof", func(xs []pt.Expr) pt.Expr { return pt.Call{Name: "typeof", Args: xs} }, pt.TAny)
	case "bool":
		add("not", func(xs []pt.Expr) pt.Expr { return pt.Unary{Op: "!", X: xs[0]} }, b)
		add("and", bin("and"), b, b)
		add("or", bin("or"), b, b)
		for _, op := range []string{"<", "<=", ">", ">="} {
			add("n"+op, bin(op), n, n)
			add("s"+op, bin(op), s, s)
		}
		for _, op := range []string{"==", "!="} {
			add("n"+op, bin(op), n, n)
			add("s"+op, bin(op), s, s)
			add("b"+op, bin(op), b, b)
			add("a"+op, bin(op), tNumArr, tNumArr)
			add("m"+op, bin(op), tNumMap, tNumMap)
			add("any"+op, bin(op), pt.TAny, pt.TAny)
			add("anyarr"+op, bin(op), tAnyArr, tAnyArr)
		}
	case "any":
		add("index-anyarr", func(xs []pt.Expr) pt.Expr { return pt.Index{X: xs[0], I: xs[1]} }, tAnyArr, n)
	case "[]any":
		add("anyarr+", bin("+"), tAnyArr, tAnyArr)
		add("slice-anyarr", func(xs []pt.Expr) pt.Expr { return pt.Slice{X: xs[0], Lo: xs[1]} }, tAnyArr, n)
	case "[]num":
		add("a+", bin("+"), tNumArr, tNumArr)
		add("a*", bin("*"), tNumArr, n)
		add("slice-arr", func(xs []pt.Expr) pt.Expr { return pt.Slice{X: xs[0], Lo: xs[1], Hi: xs[2]} }, tNumArr, n, n)
		add("slice-arr-hi", func(xs []pt.Expr) pt.Expr { return pt.Slice{X: xs[0], Hi: xs[1]} }, tNumArr, n)
	}
	return ps
}

// Gen builds an expression of type t with exactly b operator nodes (the caller checks feasibility).
func (g *ExprGen) Gen(t *pt.Type, b int) pt.Expr {
	if b == 0 {
		ls := g.Leaves[t.String()]
		return ls[g.C.Choose(len(ls), "leaf:"+t.String())]
	}
	var ok []pdesc
	for _, p := range g.prods(t) {
		if p.feas(g, b) {
			ok = append(ok, p)
		}
	}
	p := ok[g.C.Choose(len(ok), "prod:"+t.String())]
	xs := g.genSplit(p.ops, b-1)
	return p.mk(xs)
}

func (g *ExprGen) genSplit(ts []*pt.Type, b int) []pt.Expr {
	if len(ts) == 0 {
		return nil
	}
	if len(ts) == 1 {
		return []pt.Expr{g.Gen(ts[0], b)}
	}
	var opts []int
	for i := 0; i <= b; i++ {
		if g.feasible(ts[0], i) && g.splitFeasible(ts[1:], b-i) {
			opts = append(opts, i)
		}
	}
	i := opts[g.C.Choose(len(opts), "split")]
	first := g.Gen(ts[0], i)
	return append([]pt.Expr{first}, g.genSplit(ts[1:], b-i)...)
}

// OpNames lists the operator/production names used in an expression (for coverage/vacuity guards).
func OpNames(e pt.Expr, out map[string]bool) {
	switch v := e.(type) {
	case pt.Unary:
		out["unary"+v.Op] = true
		OpNames(v.X, out)
	case pt.Binary:
		out["binary"+v.Op] = true
		OpNames(v.L, out)
		OpNames(v.R, out)
	case pt.Index:
		out["index"] = true
		OpNames(v.X, out)
		OpNames(v.I, out)
	case pt.Slice:
		out["slice"] = true
		OpNames(v.X, out)
		if v.Lo != nil {
			OpNames(v.Lo, out)
		}
		if v.Hi != nil {
			OpNames(v.Hi, out)
		}
	case pt.Dot:
		out["dot"] = true
		OpNames(v.X, out)
	case pt.Group:
		OpNames(v.X, out)
	case pt.Call:
		out["call:"+v.Name] = true
		for _, a := range v.Args {
			OpNames(a, out)
		}
	case pt.ArrLit:
		for _, a := range v.Els {
			OpNames(a, out)
		}
	case pt.MapLit:
		for _, a := range v.Vals {
			OpNames(a, out)
		}
	case pt.Assert:
		out["assert"] = true
		OpNames(v.X, out)
	}
}

// VarsUsed collects the variable names read in an expression.
func VarsUsed(e pt.Expr, out map[string]bool) {
	switch v := e.(type) {
	case pt.Var:
		out[v.Name] = true
	case pt.Unary:
		VarsUsed(v.X, out)
	case pt.Binary:
		VarsUsed(v.L, out)
		VarsUsed(v.R, out)
	case pt.Index:
		VarsUsed(v.X, out)
		VarsUsed(v.I, out)
	case pt.Slice:
		VarsUsed(v.X, out)
		if v.Lo != nil {
			VarsUsed(v.Lo, out)
		}
		if v.Hi != nil {
			VarsUsed(v.Hi, out)
		}
	case pt.Dot:
		VarsUsed(v.X, out)
	case pt.Group:
		VarsUsed(v.X, out)
	case pt.Call:
		out["call:"+v.Name] = true
		for _, a := range v.Args {
			VarsUsed(a, out)
		}
	case pt.ArrLit:
		for _, a := range v.Els {
			VarsUsed(a, out)
		}
	case pt.MapLit:
		for _, a := range v.Vals {
			VarsUsed(a, out)
		}
	case pt.Assert:
		VarsUsed(v.X, out)
	}
}

// Prelude returns helper functions and variable declarations for the names an expression uses.
//
//	n/s/b/a: user functions that print their argument and return it (effect trace exposes
//	evaluation order and short-circuiting); nv/sv/bv/av/mv/xv: variables of each type.
func Prelude(used map[string]bool) []pt.Stmt {
	var out []pt.Stmt
	type fn struct {
		name string
		t    *pt.Type
	}
	for _, f := range []fn{{"n", pt.TNum}, {"s", pt.TStr}, {"b", pt.TBool}, {"a", tNumArr}, {"m", tNumMap}} {
		if used["call:"+f.name] {
			out = append(out, pt.Func{Name: f.name, Ret: f.t, Params: []pt.Param{{Name: "x", T: f.t}},
				Body: []pt.Stmt{pt.Print(pt.S(f.name), pt.V("x")), pt.Return{X: pt.V("x")}}})
		}
	}
	decl := map[string]pt.Stmt{
		"nv": pt.InferDecl{Name: "nv", X: pt.N(3)},
		"sv": pt.InferDecl{Name: "sv", X: pt.S("ab")},
		"bv": pt.InferDecl{Name: "bv", X: pt.B(true)},
		"av": pt.InferDecl{Name: "av", X: pt.A(pt.N(1), pt.N(2))},
		"mv": pt.InferDecl{Name: "mv", X: pt.M("a", pt.N(1), "b", pt.N(2))},
	}
	names := make([]string, 0, len(decl))
	for k := range decl {
		names = append(names, k)
	}
	sort.Strings(names)
	for _, k := range names {
		if used[k] {
			out = append(out, decl[k])
		}
	}
	// any-typed variables: two separately built equal arrays, a num, a string, a map; an []any variable
	anyVals := map[string]pt.Expr{"xn": pt.N(1), "xa": pt.A(pt.N(1), pt.N(2)), "xb": pt.A(pt.N(1), pt.N(2)), "xs": pt.S("a"), "xm": pt.M("k", pt.A(pt.N(1))), "xq": pt.M("k", pt.A(pt.N(1))),
		// same kind, same length, other element type: equality looks at the elements, not only at the kind
		"xt": pt.A(pt.S("1"), pt.S("2")), "xr": pt.M("k", pt.A(pt.S("1")))}
	for _, k := range []string{"xa", "xb", "xm", "xn", "xq", "xr", "xs", "xt"} {
		if used[k] {
			out = append(out, pt.TypedDecl{Name: k, T: pt.TAny}, pt.Assign{Target: pt.V(k), X: anyVals[k]})
		}
	}
	if used["ya"] {
		out = append(out, pt.TypedDecl{Name: "ya", T: tAnyArr}, pt.Assign{Target: pt.V("ya"), X: pt.A(pt.N(1), pt.A(pt.N(1), pt.N(2)))})
	}
	return out
}

func joinLines(ls ...string) string { return strings.Join(ls, "\n") + "\n" }
