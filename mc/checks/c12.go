package checks

import (
	"encoding/json"
	"fmt"
	"strings"
	"time"

	"verif/mc/fw"
	"verif/mc/pt"
	"verif/mc/ref"
)

// C12 — maps are insertion-ordered dictionaries (explicit-state search over map histories).

func init() {
	fw.Register(&fw.Check{
		ID:    "C12",
		Level: "model_checking",
		Rule: "explicit-state BFS: state = ordered (key,value) list over keys {a,b,c} and values {1,2} (79 states, each also constructed directly by a literal in its own order); " +
			"alphabet of ~60 operations (field/index store, del, lookups, has, len, print, equality against permuted/changed literals, range loops whose body prints, deletes the " +
			"current/another key, inserts, overwrites, deletes-and-reinserts, operations through an alias variable, a function parameter and an any). Every transition is replayed on the " +
			"real evaluator as program = shortest history + operation and compared with the reference ordered dictionary; plus all un-deduplicated histories to depth 3 (quick) / 4 " +
			"(thorough) from the empty map; plus, for every transition, the state's literal evaluated a second time (function called twice) after the operation. Non-trivial = the transition's source state is non-empty or the operation inserts.",
		Assumptions: []string{"canonical state key = printed map (order and values); the only hidden implementation state is the backing array of the order slice, which the raw histories cover for <= 3 keys"},
		TrustedBase: []string{"reference ordered dictionary ref.Map (key slice + lookup table) and reference interpreter"},
		Run:         runC12,
		Replay: func(sub string, in json.RawMessage) *fw.Violation {
			var d DiffInput
			json.Unmarshal(in, &d)
			return replayDiff(sub, d)
		},
		DeadlineQuick: 4 * time.Minute, DeadlineThorough: 25 * time.Minute,
		Vacuity: func(m *fw.Result) string {
			if m.Counters["states"] < 79 || m.Counters["transitions"] < 3000 {
				return fmt.Sprintf("states/transitions too low: %d/%d", m.Counters["states"], m.Counters["transitions"])
			}
			if m.Outcomes["panic:map-key"] == 0 {
				return "missing-key panic never observed"
			}
			return ""
		},
	})
}

type mapState struct {
	keys []string
	vals []float64
}

func (s mapState) lit(order []int) pt.Expr {
	m := pt.MapLit{}
	for _, i := range order {
		m.Keys = append(m.Keys, s.keys[i])
		m.Vals = append(m.Vals, pt.N(s.vals[i]))
	}
	return m
}

func (s mapState) String() string {
	var parts []string
	for i, k := range s.keys {
		parts = append(parts, fmt.Sprintf("%s:%v", k, s.vals[i]))
	}
	return "{" + strings.Join(parts, " ") + "}"
}

func (s mapState) has(k string) bool {
	for _, x := range s.keys {
		if x == k {
			return true
		}
	}
	return false
}

// mapOp builds the statements of one operation given the current (reference) state and a unique suffix.
type mapOp struct {
	name  string
	build func(s mapState, uid string) []pt.Stmt
}

var c12Keys = []string{"a", "b", "c"}

func c12Ops() []mapOp {
	var ops []mapOp
	add := func(name string, b func(s mapState, uid string) []pt.Stmt) { ops = append(ops, mapOp{name, b}) }
	m := pt.V("m")
	rangeOver := func(body ...pt.Stmt) []pt.Stmt { return []pt.Stmt{pt.For{Var: "k", Range: []pt.Expr{m}, Body: body}} }
	for _, k := range c12Keys {
		k := k
		for _, v := range []float64{1, 2} {
			v := v
			add(fmt.Sprintf("m.%s=%v", k, v), func(mapState, string) []pt.Stmt {
				return []pt.Stmt{pt.Assign{Target: pt.Dot{X: m, Key: k}, X: pt.N(v)}}
			})
			add(fmt.Sprintf("m[%q]=%v", k, v), func(mapState, string) []pt.Stmt {
				return []pt.Stmt{pt.Assign{Target: pt.Index{X: m, I: pt.S(k)}, X: pt.N(v)}}
			})
		}
		add("del "+k, func(mapState, string) []pt.Stmt { return []pt.Stmt{pt.CallStmt{C: pt.C("del", m, pt.S(k))}} })
		add("read m."+k, func(mapState, string) []pt.Stmt { return []pt.Stmt{pt.Print(pt.S("get"), pt.Dot{X: m, Key: k})} })
		add("read m["+k+"]", func(mapState, string) []pt.Stmt { return []pt.Stmt{pt.Print(pt.S("get"), pt.Index{X: m, I: pt.S(k)})} })
		add("has "+k, func(mapState, string) []pt.Stmt { return []pt.Stmt{pt.Print(pt.S("has"), pt.C("has", m, pt.S(k)))} })
		add("range-del-other "+k, func(mapState, string) []pt.Stmt {
			return rangeOver(pt.Print(pt.S("visit"), pt.V("k")), pt.CallStmt{C: pt.C("del", m, pt.S(k))})
		})
		add("range-insert "+k, func(mapState, string) []pt.Stmt {
			return rangeOver(pt.Print(pt.S("visit"), pt.V("k")), pt.Assign{Target: pt.Dot{X: m, Key: k}, X: pt.N(1)})
		})
		add("range-novar-del "+k, func(mapState, string) []pt.Stmt {
			// a range without a loop variable runs once per key that is still present when its turn comes
			return []pt.Stmt{pt.For{Range: []pt.Expr{m}, Body: []pt.Stmt{pt.Print(pt.S("turn")), pt.CallStmt{C: pt.C("del", m, pt.S(k))}}}}
		})
		for _, k2 := range c12Keys {
			if k2 == k {
				continue
			}
			k2 := k2
			add("range-del-"+k+"-insert-"+k2, func(mapState, string) []pt.Stmt {
				// the snapshot is keys-at-entry minus keys deleted meanwhile, however many keys are inserted meanwhile
				return rangeOver(pt.Print(pt.S("visit"), pt.V("k")), pt.CallStmt{C: pt.C("del", m, pt.S(k))}, pt.Assign{Target: pt.Index{X: m, I: pt.S(k2)}, X: pt.N(2)})
			})
		}
		add("alias-set "+k, func(_ mapState, uid string) []pt.Stmt {
			return []pt.Stmt{pt.InferDecl{Name: "n" + uid, X: m}, pt.Assign{Target: pt.Dot{X: pt.V("n" + uid), Key: k}, X: pt.N(2)}}
		})
		add("alias-del "+k, func(_ mapState, uid string) []pt.Stmt {
			return []pt.Stmt{pt.InferDecl{Name: "n" + uid, X: m}, pt.CallStmt{C: pt.C("del", pt.V("n"+uid), pt.S(k))}}
		})
		add("param-set "+k, func(mapState, string) []pt.Stmt { return []pt.Stmt{pt.CallStmt{C: pt.C("setk", m, pt.S(k), pt.N(1))}} })
		add("param-del "+k, func(mapState, string) []pt.Stmt { return []pt.Stmt{pt.CallStmt{C: pt.C("delk", m, pt.S(k))}} })
		add("any-set "+k, func(_ mapState, uid string) []pt.Stmt {
			return []pt.Stmt{pt.TypedDecl{Name: "x" + uid, T: pt.TAny}, pt.Assign{Target: pt.V("x" + uid), X: m},
				pt.InferDecl{Name: "y" + uid, X: pt.Assert{X: pt.V("x" + uid), T: tNumMap}},
				pt.Assign{Target: pt.Index{X: pt.V("y" + uid), I: pt.S(k)}, X: pt.N(2)}}
		})
	}
	add("len", func(mapState, string) []pt.Stmt { return []pt.Stmt{pt.Print(pt.S("len"), pt.C("len", m))} })
	add("print", func(mapState, string) []pt.Stmt { return []pt.Stmt{pt.Print(pt.S("map"), m)} })
	add("eq-reversed", func(s mapState, _ string) []pt.Stmt {
		var ord []int
		for i := len(s.keys) - 1; i >= 0; i-- {
			ord = append(ord, i)
		}
		if len(ord) == 0 {
			return []pt.Stmt{pt.Print(pt.S("eq"), pt.Bin("==", m, pt.M()))}
		}
		return []pt.Stmt{pt.Print(pt.S("eq"), pt.Bin("==", m, s.lit(ord)), pt.Bin("!=", s.lit(ord), m))}
	})
	add("eq-rotated", func(s mapState, _ string) []pt.Stmt {
		var ord []int
		for i := range s.keys {
			ord = append(ord, (i+1)%len(s.keys))
		}
		if len(ord) == 0 {
			return []pt.Stmt{pt.Print(pt.S("eq"), pt.Bin("!=", m, pt.M()))}
		}
		return []pt.Stmt{pt.Print(pt.S("eq"), pt.Bin("==", s.lit(ord), m))}
	})
	add("eq-changed", func(s mapState, _ string) []pt.Stmt {
		if len(s.keys) == 0 {
			return []pt.Stmt{pt.Print(pt.S("eq"), pt.Bin("==", m, pt.M("a", pt.N(1))))}
		}
		t := mapState{append([]string(nil), s.keys...), append([]float64(nil), s.vals...)}
		t.vals[len(t.vals)-1] = 3 - t.vals[len(t.vals)-1]
		var ord []int
		for i := range t.keys {
			ord = append(ord, i)
		}
		return []pt.Stmt{pt.Print(pt.S("eq"), pt.Bin("==", m, t.lit(ord)))}
	})
	add("eq-missing", func(s mapState, _ string) []pt.Stmt {
		if len(s.keys) == 0 {
			return []pt.Stmt{pt.Print(pt.S("eq"), pt.Bin("==", pt.M(), m))}
		}
		var ord []int
		for i := 1; i < len(s.keys); i++ {
			ord = append(ord, i)
		}
		other := s.lit(ord).(pt.MapLit)
		other.Keys = append(other.Keys, "z")
		other.Vals = append(other.Vals, pt.N(s.vals[0]))
		return []pt.Stmt{pt.Print(pt.S("eq"), pt.Bin("==", m, other))}
	})
	add("range-print", func(mapState, string) []pt.Stmt {
		return rangeOver(pt.Print(pt.S("visit"), pt.V("k"), pt.Index{X: m, I: pt.V("k")}))
	})
	add("range-del-self", func(mapState, string) []pt.Stmt {
		return rangeOver(pt.Print(pt.S("visit"), pt.V("k")), pt.CallStmt{C: pt.C("del", m, pt.V("k"))})
	})
	add("range-overwrite", func(mapState, string) []pt.Stmt {
		return rangeOver(pt.Assign{Target: pt.Index{X: m, I: pt.V("k")}, X: pt.N(2)}, pt.Print(pt.S("visit"), pt.V("k")))
	})
	add("range-del-reinsert", func(mapState, string) []pt.Stmt {
		return rangeOver(pt.CallStmt{C: pt.C("del", m, pt.V("k"))}, pt.Assign{Target: pt.Index{X: m, I: pt.V("k")}, X: pt.N(1)}, pt.Print(pt.S("visit"), pt.V("k")))
	})
	add("range-del-all-then-print", func(mapState, string) []pt.Stmt {
		return rangeOver(pt.Print(pt.S("visit"), pt.V("k")), pt.For{Var: "j", Range: []pt.Expr{m}, Body: []pt.Stmt{pt.CallStmt{C: pt.C("del", m, pt.V("j"))}}})
	})
	return ops
}

var c12Helpers = []pt.Stmt{
	pt.Func{Name: "setk", Params: []pt.Param{{Name: "mm", T: tNumMap}, {Name: "kk", T: pt.TStr}, {Name: "vv", T: pt.TNum}},
		Body: []pt.Stmt{pt.Assign{Target: pt.Index{X: pt.V("mm"), I: pt.V("kk")}, X: pt.V("vv")}}},
	pt.Func{Name: "delk", Params: []pt.Param{{Name: "mm", T: tNumMap}, {Name: "kk", T: pt.TStr}},
		Body: []pt.Stmt{pt.CallStmt{C: pt.C("del", pt.V("mm"), pt.S("kk"))}, pt.CallStmt{C: pt.C("del", pt.V("mm"), pt.V("kk"))}}},
}

var c12Final = pt.Print(pt.S("final"), pt.V("m"), pt.C("len", pt.V("m")))

// c12RefState runs stmts on the reference and returns the resulting state of m (ok=false on panic).
func c12RefState(stmts []pt.Stmt) (mapState, bool) {
	prog := &pt.Prog{Stmts: stmts}
	o := ref.RunProg(prog, ref.Opts{})
	if o.Class != "ok" {
		return mapState{}, false
	}
	var st mapState
	mv := o.Interp.Global("m")
	if mm, ok := mv.(*ref.Map); ok {
		for _, k := range mm.Keys {
			st.keys = append(st.keys, k)
			st.vals = append(st.vals, mm.M[k].(float64))
		}
	}
	return st, true
}

func runC12(w *fw.Worker) {
	ops := c12Ops()
	// all states, each with its constructing program (literal in its own order; empty = typed declaration)
	var states []mapState
	var rec func(keys []string, vals []float64)
	rec = func(keys []string, vals []float64) {
		states = append(states, mapState{append([]string(nil), keys...), append([]float64(nil), vals...)})
		for _, k := range c12Keys {
			used := false
			for _, x := range keys {
				used = used || x == k
			}
			if used {
				continue
			}
			for _, v := range []float64{1, 2} {
				rec(append(keys, k), append(vals, v))
			}
		}
	}
	rec(nil, nil)
	initOf := func(s mapState) pt.Stmt {
		if len(s.keys) == 0 {
			return pt.TypedDecl{Name: "m", T: tNumMap}
		}
		var ord []int
		for i := range s.keys {
			ord = append(ord, i)
		}
		return pt.InferDecl{Name: "m", X: s.lit(ord)}
	}
	if w.Shard == 0 {
		w.Count("states", int64(len(states)))
	}
	seenState := map[string]bool{}
	for _, s := range states {
		seenState[s.String()] = true
	}
	exec := func(sub string, nontrivial bool, stmts []pt.Stmt) {
		full := append(append([]pt.Stmt(nil), c12Helpers...), stmts...)
		full = append(full, c12Final)
		prog := &pt.Prog{Stmts: full}
		src := pt.Source(prog)
		w.Case(src, func() *fw.Violation {
			if nontrivial {
				w.Nontrivial()
			}
			w.Count("traces_validated_against_impl", 1)
			v, _ := diffProg(w, sub, src, prog, nil)
			if sub == "transition" && len(stmts) == 2 {
				w.Sample(src)
			}
			return v
		})
	}
	// BFS transitions from every state
	for _, s := range states {
		for _, op := range ops {
			stmts := append([]pt.Stmt{initOf(s)}, op.build(s, "1")...)
			if w.Shard == 0 {
				w.Count("transitions", 1)
			}
			if next, ok := c12RefState(append(append([]pt.Stmt(nil), c12Helpers...), stmts...)); ok && !seenState[next.String()] {
				w.Internal("C12: reference reached a state outside the enumerated state space: " + next.String())
			}
			exec("transition", len(s.keys) > 0 || strings.Contains(op.name, "="), stmts)
			if len(s.keys) > 0 {
				// the same literal evaluated again (a function body run twice) yields the literal's value, whatever happened to the first map
				var ord []int
				for i := range s.keys {
					ord = append(ord, i)
				}
				m0 := pt.V("m")
				mk := pt.Func{Name: "mk", Ret: tNumMap, Body: []pt.Stmt{pt.Return{X: s.lit(ord)}}}
				re := []pt.Stmt{mk, pt.InferDecl{Name: "m", X: pt.C("mk")}}
				re = append(re, op.build(s, "1")...)
				re = append(re, pt.Assign{Target: pt.Index{X: m0, I: pt.S("w")}, X: pt.N(8)},
					pt.InferDecl{Name: "fresh", X: pt.C("mk")}, pt.Print(pt.S("fresh"), pt.V("fresh"), pt.C("len", pt.V("fresh"))),
					pt.Assign{Target: pt.Index{X: pt.V("fresh"), I: pt.S("t")}, X: pt.N(9)}, pt.Print(pt.S("both"), m0, pt.V("fresh")),
					pt.For{Var: "fk", Range: []pt.Expr{pt.V("fresh")}, Body: []pt.Stmt{pt.Print(pt.S("fk"), pt.V("fk"))}})
				exec("literal-reeval", true, re)
			}
		}
	}
	// un-deduplicated histories from the empty map (state-changing and observing operations alike)
	depth := 3
	if !w.Quick() {
		depth = 4
	}
	var hist func(prefix []pt.Stmt, st mapState, d int)
	hist = func(prefix []pt.Stmt, st mapState, d int) {
		if w.Expired() {
			return
		}
		for oi, op := range ops {
			w.Progress()
			if w.Quick() && d == depth && oi%2 == 1 && depth-d == 0 && false {
				continue
			}
			stmts := append(append([]pt.Stmt(nil), prefix...), op.build(st, fmt.Sprint(depth-d+1))...)
			next, ok := c12RefState(append(append([]pt.Stmt(nil), c12Helpers...), stmts...))
			if d == 1 || !ok {
				exec("history", true, stmts)
				continue
			}
			hist(stmts, next, d-1)
		}
	}
	hist([]pt.Stmt{pt.TypedDecl{Name: "m", T: tNumMap}}, mapState{}, depth)
}
