package checks

import (
	"encoding/base64"
	"encoding/json"
	"fmt"
	"os"
	"path/filepath"
	"strings"
	"time"

	"evylang.dev/evy/learn/pkg/learn"
	"verif/mc/fw"
)

// C20 — sealed answers round-trip and answer verification is exact.

func init() {
	fw.Register(&fw.Check{
		ID:    "C20",
		Level: "fault_enumeration",
		Rule: "(1) seal/unseal: keys = the repository's 2048-bit test pair + 2 generated 1024-bit pairs; answers = {\"a\", \"a, c\", \"\", 1 byte, every UTF-8 length class, newlines, 300 bytes, " +
			"64 KB}; each sealed twice and unsealed with the right key. (2) corruption: EVERY single-byte substitution (all 255 other values) at EVERY position of the decoded envelope " +
			"(version, length prefix, RSA block, AES block, tag), every single-symbol substitution of the base64 text, every truncation and every one-byte extension. (3) every other key. " +
			"Oracle: the right key returns the original; corruption or another key returns an error or still the original - never another text. (4) verification matrix: single- and " +
			"multiple-choice questions with n = 2..4 (thorough 5) choices x all assignments of outputs {matches, differs-1, differs-2} x ALL non-empty subsets of marked letters over a..(n+1), " +
			"plain and sealed, built in memory (WithRawMD) and run through the real renderer: Verify() is nil iff the marked set equals the set of matching choices (single-choice: and has one " +
			"element); (4b) choices that are programs whose output differs from the question's only in white space or in the final newline; (4c) a text question and an image question over " +
			"the same program files verified after each of seven histories of earlier verifications in the same process, all marked subsets; (1c) all histories of length <= 5 over {Seal (good / malformed key), Unseal (right / other key), Verify, edit the answer to a wrong / the right marking} on one question object against a two-state model; (4d) questions verified by parse errors (verification: parse-error / no-parse-error) over an archive of n = 2..3 programs x all assignments {parses, does not parse} x all non-empty subsets of a..(n+1): accepted iff the marked programs are exactly those with (without) a parse error; (1b) seal/unseal of the front matter answer " +
			"for every answer text incl. leading/trailing white space. Non-trivial = corrupted envelopes and questions whose marked set differs from the matching set.",
		Assumptions: []string{"the randomness of the sealing step (crypto/rand session key, OAEP seed) is exercised with fresh values per run, not enumerated",
			"multi-byte corruptions are not enumerated (GCM authenticates the whole AES part, OAEP the whole RSA block)"},
		TrustedBase:   []string{"Go's crypto/rsa, crypto/aes, crypto/cipher are the code under test's dependencies, not re-verified"},
		Run:           runC20,
		Replay:        replayC20,
		DeadlineQuick: 6 * time.Minute, DeadlineThorough: 25 * time.Minute,
		Vacuity: func(m *fw.Result) string {
			if m.Counters["corruptions"] < 100000 || m.Counters["questions"] < 1000 || m.Counters["rejected-corruptions"] < 100000 {
				return fmt.Sprint("too few corruptions / questions: ", m.Counters)
			}
			return ""
		},
	})
}

// the key pair of learn/pkg/learn/encrypt_test.go
const c20TestPriv = "MIIEpQIBAAKCAQEAuNEufiuryg/OZPKVUbaIRam1UNqju5binwrRzsOGWkM6DYKqxW2tA+O7dhg9do/Jm0lr+rkVqf8CR/HejD08n9OTsHe0NeblLwZncQX1J3ayyGsu+xAFxQ0hvFfG+Vy8KXJAgug6CCsaiVgBwOWPdfEOqEDv5S5XlnwQh9dxWB8m/1CTDmqSdIhYnzQQp13ZyumCRgrIHKSYPR3KCZD8KLRvkoIrF0DU18f6ASO7wjv7FBhgQ2ZAR/Yud/h6ceQKvAW0W3MmPiJblZhbrsPQGi7eZZo4K8aAvuzQmcYq17/E/e6MnOweoyik4lIAG0uGa7FiY5f9NVuir7JPA2lCLwIDAQABAoIBAQCJHEcNu4BbC5bnNUCpum0moVyue0X1KV8+9lvotQ27cRxkYYgnp9IvjIfKePlAODQtTC8bdqwnzdP3Y+zixZtwRxrOVEARrRZh6LJdGzpg6KKCJWJZR+2/3pokjEpFPRMq/GP3uikzXib1taC3ZpcjvI5PLL3MnLDGJ4xr+t1Pral8BXSILhUSQzgMFAB8+5V+zWnUPuPzCeym3VeYpZSdbSsR+CZnxy4vbB4cSj97M1MgBTOPocduE5cRrE8mumAk93dzBmKH+/potjLOMhCiJJFVtPO9GXLLduLAH9qKwSk2vJytIX8KwYFTCve2EKhMB9ydBhk09zVoELUle0mhAoGBAOc9agk5CahkNOVO1E3Cw1zK+Da+2LXYk2HhjTpOTkr2lKji8v1eSDkk5R72ZfPrI5s8sBrkW0OqPJVXDnmho78quWHTwxvJrnrIcuZLa1Kn4H+cHN81J9jGcim7kLPTZUcnU0RMR7Xn3lT61H5lB3LSFplRq52tqS5AaxaksS0tAoGBAMybQjceAVTihCHKFkaFV8Ys2dm5p5ejCzYklY+jA0UdTmHT6kmr13KIA6k61+s8kyZDaGutZ6lRyHuCfotL6j6jr8rsn/EbDikZ4/XhhO9+B+xJMXolKLFA+/pBPxNs7KLSjZ3mH7N0qzxbQzyVWF4BhSxTxIjWEGAtc1ZUJN5LAoGBAMYPFzRhE0GU2q2RkEwuRnDDNEiHvEw8/Td4HiPTkEGq4/ens2KKj6fKTyju+LIsM6oyF9BgyT6yoAN1tmM9rGf/qxr8av/xBa4K5EcWUA1S1vnV9/DCsad9iajvC2jK5tND/pDgGQfYWtlEoh7EX9Xb1hlqF2kNpnuEF3UkiNDdAoGBAJzuMFlKAEd0/VdVQsSQHYR4fhbKmMprWXwLj1L9+tIV6jqKaVZcIQFNZVF1OorIiSx94ydDdxCdE6H3sstwTJgCwCBqYTpyP+gyXXAHqwhtp/IJKZO/0HgzmZCWXqStlMpFqC0FhicEQxol/WoIOiDQFa6sCT/Sv/iko6QBIc4FAoGAMSC5SUsgUiHo6gvp2put1ySmJIVj3roqI6mAndi2hLVMalF1Q5F4X4HVHWqOj7QA7zpf3ATotCI4AbmfOwpFCZ4rEP0QsbV2uZ/3NhxwAE1MWrv+ht2ONe74sOYg7Z+XAjD7TW7We3KTewerVnC/VotKZ+3Eq2FgelSYDvlNmoQ="
const c20TestPub = "MIIBCgKCAQEAuNEufiuryg/OZPKVUbaIRam1UNqju5binwrRzsOGWkM6DYKqxW2tA+O7dhg9do/Jm0lr+rkVqf8CR/HejD08n9OTsHe0NeblLwZncQX1J3ayyGsu+xAFxQ0hvFfG+Vy8KXJAgug6CCsaiVgBwOWPdfEOqEDv5S5XlnwQh9dxWB8m/1CTDmqSdIhYnzQQp13ZyumCRgrIHKSYPR3KCZD8KLRvkoIrF0DU18f6ASO7wjv7FBhgQ2ZAR/Yud/h6ceQKvAW0W3MmPiJblZhbrsPQGi7eZZo4K8aAvuzQmcYq17/E/e6MnOweoyik4lIAG0uGa7FiY5f9NVuir7JPA2lCLwIDAQAB"

var c20GeneratedKeys = [][2]string{
	{"MIGJAoGBANRbnJW+OoDRWexZPqVwCDSaxP4AomMZd9pTdv4hD6+xy0fk23t6CMaah6FBChkrAAgTCl9uTfcnb7KK5MqfpoAfv6QGdTigLbMY9kuKVyhOUEZYgtllV6jNd6nQKceD1ZDO9IJLu9ISLsmPk53IDnDJaMAU2PFmVHBNxp+CbkirAgMBAAE=",
		"MIICXQIBAAKBgQDUW5yVvjqA0VnsWT6lcAg0msT+AKJjGXfaU3b+IQ+vsctH5Nt7egjGmoehQQoZKwAIEwpfbk33J2+yiuTKn6aAH7+kBnU4oC2zGPZLilcoTlBGWILZZVeozXep0CnHg9WQzvSCS7vSEi7Jj5OdyA5wyWjAFNjxZlRwTcafgm5IqwIDAQABAoGAM/K1O2xto1WTSd4LFS1y1GuIBRrinpt8VkxUr5Ym4DP+Jng1uN8BhpQG2cuvTLjYKSF/SBkTuYJMMMEJdwfXEs6dnkMTLiXKDJxGdffXMSZxe3mayUJrztY3vlMH16cd6zJ557SPSxyhqz38+qa74SzkjbuqvkCtoYMmPSCKTwECQQDqkuF/wTsQsIuTf7fN0S+O3hu2Bqi7wL/6rVltbYjc9zaEq4PWyrLO6MVkrZOElbjBcaaugOF7WxcYb6GFMhefAkEA58E/tGmfpx5UYuxSW70DhCFmwMnQIdgKAS8o3ksl4tHL+froQPdCVHFS3RlBY9B7FauPbqPItaR9uxegXzljdQJBAMziQeeuRQLM0Pyh/07buWhWA2o34sUrFAPFyWhU1cf6fTnf/SVsokUq9s569XBGvbroo6ejlk6CP2fuiOun1w0CQQCxHOH3mcUWbbpmA18JlxDp2LDzYwg55SX4M7dS8zFX/6eYOqVmiNBbQmPmbtenVXvLWtp53peUIcqoweyg+XXFAkAckn3z1MsO0ZWIqTXkOg7hGeepbxD7ds84Sbm9Aaf+n1MTQ9g+gDT6jj6tbgCZy+TVuz99w7NiukFhxR9EuB51"},
	{"MIGJAoGBAM6e2Zezc8N3siCRTkM5Az+6ihdxHuL3PC1+HK9BA+2052ERqkPPaMCI8N9qW7iEoPaD3FA/FDEVf2QLyAdcn5Dj0wuBlqM9aNyhxFqyjRTOwfm8wk1NRrna3J3CeUHHLAGyRKNAxDJbhksMt4AloyVPV4UgFPuBtjHVhh+5lTgPAgMBAAE=",
		"MIICXAIBAAKBgQDOntmXs3PDd7IgkU5DOQM/uooXcR7i9zwtfhyvQQPttOdhEapDz2jAiPDfalu4hKD2g9xQPxQxFX9kC8gHXJ+Q49MLgZajPWjcocRaso0UzsH5vMJNTUa52tydwnlBxywBskSjQMQyW4ZLDLeAJaMlT1eFIBT7gbYx1YYfuZU4DwIDAQABAoGALmIKhruKKT8dhaIY545M5GmDxm9md5z4rV26Ir19nEcYCfplNoPBCDe1mvHNVUawu6YuNvVyGvKwfk0GwmBQkVZuObx+QAU+Z1we3aTAu8S0F1YgKJHHtVLHF23Sp1kvkLzIv8Ggbl3yau8WQ841Jo8820cj04aDW8NcUN/HYQECQQD6wrAvtUyF060CxIUZOmu5aTfh2VYkqL/pclCW3p08MndmfohISF9jN6s74JamPjK7HnpI4aICgV77Q0m6OkAfAkEA0vAO2TBUSjG2d8YsH0Rzz+Kj4yHIxPDRzvRbAWNtWbb3W54S/psBodizjo55f4RTQDjb/3JdE1dOoQvGnRJKEQJAOXJ8tpFMVKRn0GiBLYRqxXFLchw+Veuq+6pKuCWL1AyjugFm61hZMfvA6NjM6oz5RlD3Jtc6LGTDA8EolNdfdQJAL18WFpSR+W+cqN1qf0MiNyeQ4qttqTzkAXRDE9a+cg1zE7I2VdN91FkUSgmZI5gWEjAyx/VpDbTnxacdXZ0D4QJBALXJArinZQpcGyL7qWzbZl06+8YRnwFaqdZ5cLPWtdT0d0kSEwjGdzTigDlA0NM8ez+jak2tM4VtE51NwDOy57A="},
}

type c20Input struct {
	Kind    string   `json:"kind"` // roundtrip | corrupt | question
	Priv    string   `json:"priv,omitempty"`
	Sealed  string   `json:"sealed,omitempty"`
	Answer  string   `json:"answer"`
	FM      string   `json:"frontmatter,omitempty"`
	MD      string   `json:"md,omitempty"`
	Sealing bool     `json:"sealing,omitempty"`
	Want    bool     `json:"want_accept,omitempty"`
	Ops     []string `json:"ops,omitempty"`
}

func replayC20(sub string, in json.RawMessage) *fw.Violation {
	var d c20Input
	json.Unmarshal(in, &d)
	if d.Kind == "mixed" {
		var m c20MixedInput
		json.Unmarshal(in, &m)
		return c20MixedCase(m)
	}
	if d.Kind == "parse-error" {
		var m c20ParseErrInput
		json.Unmarshal(in, &m)
		return c20ParseErrCase(m)
	}
	switch d.Kind {
	case "corrupt":
		return c20Decrypt(d, false)
	case "question":
		return c20Question(d)
	case "fm-roundtrip":
		return c20FrontmatterRoundtrip(d)
	case "fm-history":
		return c20FrontmatterHistory(d)
	}
	return nil
}

func c20Decrypt(d c20Input, mustSucceed bool) *fw.Violation {
	got, err := learn.Decrypt(d.Priv, d.Sealed)
	switch {
	case err == nil && got != d.Answer:
		return &fw.Violation{Sub: d.Kind, Signature: "unsealed-different-text", What: "an altered sealed value (or another key) yields a text that is not the original answer", Input: d,
			Expected: "an error or the original answer " + fmt.Sprintf("%q", fw.Trunc(d.Answer, 60)), Observed: fmt.Sprintf("%q", fw.Trunc(got, 100))}
	case err != nil && mustSucceed:
		return &fw.Violation{Sub: d.Kind, Signature: "roundtrip-failed", What: "unsealing with the matching key failed", Input: d, Expected: fmt.Sprintf("%q", fw.Trunc(d.Answer, 60)), Observed: err.Error()}
	}
	return nil
}

func runC20(w *fw.Worker) {
	type kp struct{ pub, priv string }
	keys := []kp{{c20TestPub, c20TestPriv}}
	// two fixed 1024-bit pairs generated once with learn.Keygen (the same in every shard and every run)
	for _, k := range c20GeneratedKeys {
		keys = append(keys, kp{k[0], k[1]})
	}
	answers := []string{"a", "a, c", "", "x", "é", "€", "😀", "line1\nline2\n", " a", "a ", "\ta\n\n", "\n", " ", "\u00a0b\u00a0", "    print 1\n    print 2\n", strings.Repeat("abcdefghij", 30), strings.Repeat("0123456789abcdef", 4096)}
	// (1) round trips and (3) other keys
	for ki, k := range keys {
		for _, a := range answers {
			for rep := 0; rep < 2; rep++ {
				if (ki*7+len(a)+rep)%w.NShards != w.Shard && w.NShards > 1 {
					continue
				}
				sealed, err := learn.Encrypt(k.pub, a)
				if err != nil {
					w.AddViolation(&fw.Violation{Sub: "roundtrip", Signature: "seal-failed", What: "sealing failed", Input: c20Input{Kind: "roundtrip", Answer: fw.Trunc(a, 50)}, Observed: err.Error()})
					continue
				}
				d := c20Input{Kind: "roundtrip", Priv: k.priv, Sealed: sealed, Answer: a}
				w.RunCase(fmt.Sprint("rt", ki, len(a), rep), func() *fw.Violation { w.Count("roundtrips", 1); return c20Decrypt(d, true) })
				for kj, other := range keys {
					if kj == ki {
						continue
					}
					do := c20Input{Kind: "corrupt", Priv: other.priv, Sealed: sealed, Answer: a}
					w.RunCase(fmt.Sprint("ok", ki, kj, len(a), rep), func() *fw.Violation { w.Nontrivial(); w.Count("other-key", 1); return c20Decrypt(do, false) })
				}
			}
		}
	}
	// (1b) seal / unseal on the front matter of a question: the answer text comes back unchanged
	for ai, a := range answers {
		if a == "" || ai%w.NShards != w.Shard && w.NShards > 1 {
			continue // an empty answer cannot be sealed
		}
		d := c20Input{Kind: "fm-roundtrip", Answer: a}
		w.RunCase(fmt.Sprint("fmrt", ai), func() *fw.Violation {
			w.Nontrivial()
			w.Count("frontmatter-roundtrips", 1)
			return c20FrontmatterRoundtrip(d)
		})
	}
	// (1c) histories on one front matter object: a rejected Seal / Unseal (malformed or non-matching key) leaves the object as it was,
	// so the following call with the right key still works; all sequences of length <= 3 over {seal-bad, seal-good, unseal-wrong, unseal-right}
	if w.Shard == 0 || w.NShards == 1 {
		// ... and, to length 5, with the answer read (verify) and edited (to a wrong / back to the right marking) in between: what is
		// read after a Seal is what was sealed last, not what an earlier read saw
		ops := []string{"seal-bad", "seal-good", "unseal-wrong", "unseal-right", "verify", "edit-wrong", "edit-right"}
		var hist func(prefix []string)
		hist = func(prefix []string) {
			if len(prefix) > 0 {
				d := c20Input{Kind: "fm-history", Answer: "a, c", Ops: append([]string(nil), prefix...)}
				w.RunCase(fmt.Sprint("fmhist", prefix), func() *fw.Violation {
					w.Nontrivial()
					w.Count("frontmatter-histories", 1)
					return c20FrontmatterHistory(d)
				})
			}
			if len(prefix) == 5 {
				return
			}
			for oi, op := range ops {
				if len(prefix) >= 3 && oi < 4 && oi%2 == 0 {
					continue // beyond length 3 the rejected calls (bad / wrong key) are left out
				}
				hist(append(append([]string(nil), prefix...), op))
			}
		}
		hist(nil)
	}
	// (2) corruptions
	corruptAnswers := []string{"a", "a, c", "€ é", strings.Repeat("abcdefghij", 30)}
	for ki, k := range keys {
		for ai, a := range corruptAnswers {
			if ki == 0 && ai >= 2 && w.Quick() {
				continue // the 2048-bit key is slow: two answers in the quick tier
			}
			// one sealed value per (key, answer), produced in shard order so that each shard corrupts its own envelope
			sealed, err := learn.Encrypt(k.pub, a)
			if err != nil {
				panic(err)
			}
			raw, _ := base64.StdEncoding.DecodeString(sealed)
			n := 0
			try := func(b64 string) {
				n++
				if n%w.NShards != w.Shard && w.NShards > 1 {
					return
				}
				d := c20Input{Kind: "corrupt", Priv: k.priv, Sealed: b64, Answer: a}
				w.Res.Evaluations++
				w.Res.Distinct++
				w.Res.Nontrivial++
				w.Count("corruptions", 1)
				got, err := learn.Decrypt(k.priv, b64)
				if err != nil {
					w.Count("rejected-corruptions", 1)
					return
				}
				if got == a {
					w.Count("harmless-corruptions", 1)
					return
				}
				w.RunCase(fmt.Sprint("corrupt", ki, ai, n), func() *fw.Violation { return c20Decrypt(d, false) })
			}
			for pos := range raw {
				if w.Expired() {
					return
				}
				orig := raw[pos]
				for v := 0; v < 256; v++ {
					if byte(v) == orig {
						continue
					}
					raw[pos] = byte(v)
					try(base64.StdEncoding.EncodeToString(raw))
				}
				raw[pos] = orig
			}
			// truncations and one-byte extensions of the envelope
			for l := 0; l < len(raw); l++ {
				try(base64.StdEncoding.EncodeToString(raw[:l]))
			}
			for v := 0; v < 256; v++ {
				try(base64.StdEncoding.EncodeToString(append(append([]byte(nil), raw...), byte(v))))
			}
			// substitutions in the base64 text
			const alpha = "ABCDEFGHIJKLMNOPQRSTUVWXYZabcdefghijklmnopqrstuvwxyz0123456789+/="
			bs := []byte(sealed)
			for pos := range bs {
				orig := bs[pos]
				for i := 0; i < len(alpha); i++ {
					if alpha[i] == orig {
						continue
					}
					bs[pos] = alpha[i]
					try(string(bs))
				}
				bs[pos] = orig
			}
			if ki == 1 && ai == 0 && w.Shard == 0 {
				w.Sample(map[string]any{"answer": a, "envelope_bytes": len(raw), "sealed": fw.Trunc(sealed, 80)})
			}
		}
	}
	// (4) verification matrix
	maxN := 4
	if !w.Quick() {
		maxN = 5
	}
	outputs := []string{"x", "y", "z"} // index 0 matches the question
	// (4c) text and image questions over the same program files, verified one after the other in one process: the verdict on a
	// question does not depend on which questions were verified before it (outputs are a function of program AND result type)
	if w.Shard == 0 || w.NShards == 1 {
		c20MixedModes(w)
		c20ParseErrModes(w)
	}
	// (4b) outputs that differ from the question's output only in white space do not match: choices are programs, the question shows the output "hi\n"
	progs := []string{"print \"hi\"", "print \" hi\"", "print \"hi\"\n  print", "print \"hi \"", "print \"ho\"", "printf \"hi\""} // index 0 matches; the last one lacks the final newline
	for _, atype := range []string{"multiple-choice", "single-choice"} {
		for n := 2; n <= 3; n++ {
			total := 1
			for i := 0; i < n; i++ {
				total *= len(progs)
			}
			for code := 0; code < total; code++ {
				assign := make([]int, n)
				for i, c := 0, code; i < n; i++ {
					assign[i] = c % len(progs)
					c /= len(progs)
				}
				for mask := 1; mask < 1<<n; mask++ {
					var marked []string
					var md strings.Builder
					md.WriteString("Which program generates the following text output?\n\n```\nhi\n```\n\n")
					want := true
					for i, o := range assign {
						fmt.Fprintf(&md, "- ```evy\n  %s\n  ```\n", progs[o])
						isMarked := mask&(1<<i) != 0
						if isMarked {
							marked = append(marked, string(rune('a'+i)))
						}
						want = want && isMarked == (o == 0)
					}
					if atype == "single-choice" {
						want = want && len(marked) == 1
					}
					answer := strings.Join(marked, ", ")
					fm := "type: question\ndifficulty: easy\nanswer-type: " + atype + "\nanswer: " + answer + "\n"
					d := c20Input{Kind: "question", FM: fm, MD: md.String(), Answer: answer, Want: want}
					w.Case(fmt.Sprint("ws", atype, assign, marked), func() *fw.Violation {
						w.Count("questions", 1)
						w.Count("whitespace-questions", 1)
						if !want {
							w.Nontrivial()
						}
						return c20Question(d)
					})
				}
			}
		}
	}
	for _, atype := range []string{"multiple-choice", "single-choice"} {
		for n := 2; n <= maxN; n++ {
			assign := make([]int, n)
			for {
				// all non-empty subsets of letters a..(n+1)
				for mask := 1; mask < 1<<(n+1); mask++ {
					var marked []string
					for i := 0; i <= n; i++ {
						if mask&(1<<i) != 0 {
							marked = append(marked, string(rune('a'+i)))
						}
					}
					var md strings.Builder
					md.WriteString("What does this program print?\n\n```evy\nprint \"x\"\n```\n\n")
					match := map[string]bool{}
					for i, o := range assign {
						fmt.Fprintf(&md, "- `%s`\n", outputs[o])
						if o == 0 {
							match[string(rune('a'+i))] = true
						}
					}
					want := len(marked) == len(match)
					for _, l := range marked {
						want = want && match[l]
					}
					if atype == "single-choice" {
						want = want && len(marked) == 1
					}
					answer := strings.Join(marked, ", ")
					fm := "type: question\ndifficulty: easy\nanswer-type: " + atype + "\nanswer: " + answer + "\n"
					for _, sealing := range []bool{false, true} {
						if sealing && (mask%3 != 0) {
							continue // sealed variants for every third subset (sealing is independent of the matrix)
						}
						d := c20Input{Kind: "question", FM: fm, MD: md.String(), Answer: answer, Sealing: sealing, Want: want}
						w.Case(fmt.Sprint(atype, assign, marked, sealing), func() *fw.Violation {
							w.Count("questions", 1)
							if !want {
								w.Nontrivial()
							}
							if n == 3 && mask == 5 && !sealing {
								w.Sample(d)
							}
							return c20Question(d)
						})
					}
				}
				// next assignment
				i := 0
				for ; i < n; i++ {
					assign[i]++
					if assign[i] < 3 {
						break
					}
					assign[i] = 0
				}
				if i == n {
					break
				}
			}
		}
	}
}

// c20FrontmatterHistory applies a sequence of Seal / Unseal calls, some of which must be rejected, to one front matter object and
// follows it with a two-state reference model: {unsealed(answer), sealed}. A rejected call changes nothing.
func c20FrontmatterHistory(d c20Input) *fw.Violation {
	viol := func(sig, exp, obs string) *fw.Violation {
		return &fw.Violation{Sub: "fm-history", Signature: sig, What: "a sequence of Seal / Unseal calls on one front matter object does not behave like the two-state model", Input: d, Expected: exp, Observed: obs}
	}
	fm := "type: question\ndifficulty: easy\nanswer-type: multiple-choice\nanswer: " + d.Answer + "\n"
	md := "What does this program print?\n\n```evy\nprint \"x\"\n```\n\n- `x`\n- `y`\n- `x`\n"
	m, err := learn.NewQuestionModel("course/unit/exercise/question1.md", learn.WithRawMD(fm, md), learn.WithPrivateKey(c20TestPriv))
	if err != nil {
		return viol("carrier-question-rejected", "a well-formed multiple-choice question is built", err.Error())
	}
	otherPriv := c20GeneratedKeys[0][1]
	sealed := false
	cur := d.Answer // the answer the object stands for (d.Answer is the right marking)
	for i, op := range d.Ops {
		var err error
		wantErr := false
		switch op {
		case "verify":
			err = m.Verify()
			wantErr = cur != d.Answer
		case "edit-wrong", "edit-right":
			if !sealed { // the author edits the plain answer; a sealed one has nothing to edit
				cur = map[string]string{"edit-wrong": "b", "edit-right": d.Answer}[op]
				m.Frontmatter.Answer = cur
			}
		case "seal-bad":
			err = m.Frontmatter.Seal("not a key")
			wantErr = !sealed // sealing a sealed answer is a no-op whatever the key
		case "seal-good":
			err = m.Frontmatter.Seal(c20TestPub)
			if err == nil {
				sealed = true
			}
		case "unseal-wrong":
			err = m.Frontmatter.Unseal(otherPriv)
			wantErr = sealed // unsealing an unsealed answer is a no-op
		case "unseal-right":
			err = m.Frontmatter.Unseal(c20TestPriv)
			if err == nil {
				sealed = false
			}
		}
		step := fmt.Sprintf("step %d (%s)", i+1, op)
		if wantErr && err == nil {
			if op == "verify" {
				return viol("fm-history-verify", step+": a wrongly marked question ("+cur+") is rejected", "accepted")
			}
			return viol("fm-history-accepts-bad-key", step+": rejected", "accepted")
		}
		if !wantErr && err != nil {
			return viol("fm-history-call-failed", step+": succeeds", err.Error())
		}
		if m.IsSealed() != sealed {
			return viol("fm-history-state", fmt.Sprint(step, ": sealed=", sealed), fmt.Sprint("sealed=", m.IsSealed(), " answer=", m.Frontmatter.Answer))
		}
		if !sealed && m.Frontmatter.Answer != cur {
			return viol("fm-history-answer-lost", step+": answer "+cur, fmt.Sprintf("%q", m.Frontmatter.Answer))
		}
		if sealed && (m.Frontmatter.Answer != "" || m.Frontmatter.SealedAnswer == "") {
			return viol("fm-history-state", step+": sealed-answer set, answer empty", fmt.Sprintf("answer=%q sealed=%q", m.Frontmatter.Answer, fw.Trunc(m.Frontmatter.SealedAnswer, 30)))
		}
	}
	// whatever happened, the question still verifies (it is correctly marked)
	if sealed {
		if err := m.Frontmatter.Unseal(c20TestPriv); err != nil {
			return viol("fm-history-final-unseal", "unseal with the right key succeeds", err.Error())
		}
	}
	if m.Frontmatter.Answer != cur {
		return viol("fm-history-answer-lost", "final unseal: answer "+cur, fmt.Sprintf("%q", m.Frontmatter.Answer))
	}
	if err := m.Verify(); (err == nil) != (cur == d.Answer) {
		return viol("fm-history-verify", fmt.Sprint("the question verifies exactly when its marking is the right one: accept=", cur == d.Answer), fmt.Sprint(err))
	}
	return nil
}

// c20FrontmatterRoundtrip seals and unseals the answer of a question model's front matter.
func c20FrontmatterRoundtrip(d c20Input) *fw.Violation {
	viol := func(sig, obs string) *fw.Violation {
		return &fw.Violation{Sub: "fm-roundtrip", Signature: sig, What: "sealing and unsealing the front matter answer does not return the original text", Input: d,
			Expected: fmt.Sprintf("%q", fw.Trunc(d.Answer, 60)), Observed: obs}
	}
	fm := "type: question\ndifficulty: easy\nanswer-type: multiple-choice\nanswer: a\n"
	md := "What does this program print?\n\n```evy\nprint \"x\"\n```\n\n- `x`\n- `y`\n"
	m, err := learn.NewQuestionModel("course/unit/exercise/question1.md", learn.WithRawMD(fm, md), learn.WithPrivateKey(c20TestPriv))
	if err != nil {
		return viol("carrier-question-rejected", err.Error())
	}
	m.Frontmatter.Answer = d.Answer
	if err := m.Seal(c20TestPub); err != nil {
		return viol("fm-seal-failed", err.Error())
	}
	if !m.IsSealed() || m.Frontmatter.Answer != "" {
		return viol("fm-not-sealed", fmt.Sprintf("sealed=%v answer=%q", m.IsSealed(), m.Frontmatter.Answer))
	}
	if err := m.Unseal(); err != nil {
		return viol("fm-unseal-failed", err.Error())
	}
	if m.Frontmatter.Answer != d.Answer || m.IsSealed() {
		return viol("fm-roundtrip-differs", fmt.Sprintf("%q", fw.Trunc(m.Frontmatter.Answer, 100)))
	}
	return nil
}

type c20MixedInput struct {
	Kind    string   `json:"kind"`
	History []string `json:"verified_before"` // "text" / "image", each with its correct marking
	Subject string   `json:"question"`
	Answer  string   `json:"answer"`
	Want    bool     `json:"want_accept"`
}

var c20MixedFiles = map[string]string{
	"a.evy": "print \"x\"\ncircle 10\n", "b.evy": "print \"x\"\ncircle 40\n", "c.evy": "circle 10\n", "d.evy": "print \"y\"\ncircle 10\n",
}

const c20TextMD = "Which programs print the following?\n\n```\nx\n```\n\n- [answer](a.evy \"evy:source\")\n- [answer](b.evy \"evy:source\")\n- [answer](c.evy \"evy:source\")\n- [answer](d.evy \"evy:source\")\n"
const c20ImageMD = "Which programs draw the same picture as this one?\n\n[question](a.evy \"evy:svg\")\n\n- [answer](b.evy \"evy:source\")\n- [answer](c.evy \"evy:source\")\n- [answer](d.evy \"evy:source\")\n"

// c20MixedVerify verifies one question of the mixed-mode family in dir.
func c20MixedVerify(dir, subject, answer string) error {
	md, name := c20TextMD, "q-text.md"
	if subject == "image" {
		md, name = c20ImageMD, "q-img.md"
	}
	fm := "type: question\ndifficulty: easy\nanswer-type: multiple-choice\nanswer: " + answer + "\n"
	m, err := learn.NewQuestionModel(filepath.Join(dir, name), learn.WithRawMD(fm, md))
	if err != nil {
		return fmt.Errorf("construction: %w", err)
	}
	return m.Verify()
}

func c20MixedCase(in c20MixedInput) *fw.Violation {
	dir, err := os.MkdirTemp(os.Getenv("VERIF_BUILD_DIR"), "learn-")
	if err != nil {
		panic(err)
	}
	defer os.RemoveAll(dir)
	qdir := filepath.Join(dir, "course", "unit", "exercise")
	os.MkdirAll(qdir, 0o777)
	for n, src := range c20MixedFiles {
		os.WriteFile(filepath.Join(qdir, n), []byte(src), 0o666)
	}
	correct := map[string]string{"text": "a, b", "image": "b, c"}
	for _, h := range in.History {
		if err := c20MixedVerify(qdir, h, correct[h]); err != nil {
			return &fw.Violation{Sub: "mixed", Signature: "mixed-history-rejects-right-key", What: "a correctly marked question is rejected", Input: in, Expected: "accepted", Observed: strings.ReplaceAll(err.Error(), dir, "<dir>")}
		}
	}
	err = c20MixedVerify(qdir, in.Subject, in.Answer)
	if err != nil && strings.HasPrefix(err.Error(), "construction") {
		return &fw.Violation{Sub: "mixed", Signature: "mixed-question-rejected", What: "a well-formed question over program files cannot be built", Input: in, Expected: "built", Observed: strings.ReplaceAll(err.Error(), dir, "<dir>")}
	}
	if (err == nil) != in.Want {
		sig := "mixed-accepts-wrong-key"
		if in.Want {
			sig = "mixed-rejects-right-key"
		}
		return &fw.Violation{Sub: "mixed", Signature: sig, What: "the verdict on a question depends on what was verified before it in the same process (or is wrong on its own)", Input: in,
			Expected: fmt.Sprint("accept=", in.Want), Observed: strings.ReplaceAll(fmt.Sprint("accept=", err == nil, " ", err), dir, "<dir>")}
	}
	return nil
}

func c20MixedModes(w *fw.Worker) {
	nChoices := map[string]int{"text": 4, "image": 3}
	match := map[string]map[string]bool{"text": {"a": true, "b": true}, "image": {"b": true, "c": true}}
	histories := [][]string{nil, {"text"}, {"image"}, {"text", "image"}, {"image", "text"}, {"text", "text"}, {"image", "image"}}
	for _, h := range histories {
		for _, subject := range []string{"text", "image"} {
			n := nChoices[subject]
			for mask := 1; mask < 1<<n; mask++ {
				var marked []string
				want := true
				for i := 0; i < n; i++ {
					l := string(rune('a' + i))
					on := mask&(1<<i) != 0
					if on {
						marked = append(marked, l)
					}
					want = want && on == match[subject][l]
				}
				in := c20MixedInput{Kind: "mixed", History: h, Subject: subject, Answer: strings.Join(marked, ", "), Want: want}
				w.RunCase(fmt.Sprint("mixed", h, subject, marked), func() *fw.Violation {
					w.Nontrivial()
					w.Count("mixed-mode-questions", 1)
					return c20MixedCase(in)
				})
			}
		}
	}
}

func c20Question(d c20Input) *fw.Violation {
	opts := []learn.Option{learn.WithRawMD(d.FM, d.MD)}
	if d.Sealing {
		opts = append(opts, learn.WithPrivateKey(c20TestPriv))
	}
	accept := false
	detail := ""
	func() {
		defer func() {
			if r := recover(); r != nil {
				detail = "PANIC: " + fmt.Sprint(r)
			}
		}()
		m, err := learn.NewQuestionModel("course/unit/exercise/question1.md", opts...)
		if err != nil {
			detail = "construction: " + err.Error()
			return
		}
		if d.Sealing {
			if err := m.Seal(c20TestPub); err != nil {
				detail = "seal: " + err.Error()
				return
			}
			if !m.IsSealed() {
				detail = "not sealed after Seal"
				return
			}
		}
		if err := m.Verify(); err != nil {
			detail = "verify: " + err.Error()
			return
		}
		accept = true
	}()
	if strings.HasPrefix(detail, "PANIC") {
		return &fw.Violation{Sub: "question", Signature: "gopanic", What: "verification panicked", Input: d, Observed: detail}
	}
	if accept != d.Want {
		sig := "verification-accepts-wrong-key"
		if d.Want {
			sig = "verification-rejects-right-key"
		}
		return &fw.Violation{Sub: "question", Signature: sig, What: "Verify() does not accept exactly the questions whose marked choices are the matching ones", Input: d,
			Expected: fmt.Sprint("accept=", d.Want), Observed: fmt.Sprint("accept=", accept, " ", detail)}
	}
	return nil
}

// (4d) questions verified by parse errors ("verification: parse-error" / "no-parse-error"): one archive of n programs, every
// assignment of {parses, does not parse} to the programs, every non-empty subset of the letters a..(n+1) marked (the last letter
// has no program). Accepted exactly when the marked programs are precisely those with (without) a parse error.
type c20ParseErrInput struct {
	Kind         string `json:"kind"`
	Verification string `json:"verification"`
	AnswerType   string `json:"answer_type"`
	Broken       []bool `json:"program_has_parse_error"`
	Answer       string `json:"answer"`
	Want         bool   `json:"want_accept"`
}

func c20ParseErrCase(in c20ParseErrInput) *fw.Violation {
	dir, err := os.MkdirTemp(os.Getenv("VERIF_BUILD_DIR"), "learn-")
	if err != nil {
		panic(err)
	}
	defer os.RemoveAll(dir)
	qdir := filepath.Join(dir, "course", "unit", "exercise")
	os.MkdirAll(qdir, 0o777)
	var ar strings.Builder
	for i, b := range in.Broken {
		fmt.Fprintf(&ar, "-- %c.evy --\n", 'a'+i)
		if b {
			fmt.Fprintf(&ar, "print \"x%d\n", i) // unterminated string; the programs of one archive must differ
		} else {
			fmt.Fprintf(&ar, "print \"x%d\"\n", i)
		}
	}
	os.WriteFile(filepath.Join(qdir, "q.txtar"), []byte(ar.String()), 0o666)
	fm := "type: question\ndifficulty: easy\nanswer-type: " + in.AnswerType + "\nanswer: " + in.Answer + "\nverification: " + in.Verification + "\n"
	md := "Which program causes a parse error?\n\n- [answer](q.txtar \"evy:source\")\n"
	accept, detail := false, ""
	func() {
		defer func() {
			if r := recover(); r != nil {
				detail = "PANIC: " + fmt.Sprint(r)
			}
		}()
		m, err := learn.NewQuestionModel(filepath.Join(qdir, "q.md"), learn.WithRawMD(fm, md))
		if err != nil {
			detail = "construction: " + err.Error()
			return
		}
		if err := m.Verify(); err != nil {
			detail = "verify: " + err.Error()
			return
		}
		accept = true
	}()
	detail = strings.ReplaceAll(detail, dir, "<dir>") // the scratch directory has a fresh name on every run
	if strings.HasPrefix(detail, "PANIC") {
		return &fw.Violation{Sub: "parse-error", Signature: "gopanic", What: "verification panicked", Input: in, Observed: detail}
	}
	if strings.HasPrefix(detail, "construction") {
		return &fw.Violation{Sub: "parse-error", Signature: "parse-error-question-rejected", What: "a well-formed parse-error question cannot be built", Input: in, Expected: "built", Observed: detail}
	}
	if accept != in.Want {
		sig := "parse-error-accepts-wrong-key"
		if in.Want {
			sig = "parse-error-rejects-right-key"
		}
		return &fw.Violation{Sub: "parse-error", Signature: sig, What: "Verify() does not accept exactly the parse-error questions whose marked programs are the ones with (without) a parse error", Input: in,
			Expected: fmt.Sprint("accept=", in.Want), Observed: fmt.Sprint("accept=", accept, " ", detail)}
	}
	return nil
}

func c20ParseErrModes(w *fw.Worker) {
	for _, verification := range []string{"parse-error", "no-parse-error"} {
		for _, atype := range []string{"multiple-choice", "single-choice"} {
			for n := 2; n <= 3; n++ {
				for code := 0; code < 1<<n; code++ {
					broken := make([]bool, n)
					for i := range broken {
						broken[i] = code&(1<<i) != 0
					}
					for mask := 1; mask < 1<<(n+1); mask++ {
						var marked []string
						want := mask < 1<<n // the letter after the last program matches nothing
						for i := 0; i <= n; i++ {
							on := mask&(1<<i) != 0
							if on {
								marked = append(marked, string(rune('a'+i)))
							}
							if i < n {
								want = want && on == (broken[i] == (verification == "parse-error"))
							}
						}
						if atype == "single-choice" {
							want = want && len(marked) == 1
						}
						in := c20ParseErrInput{Kind: "parse-error", Verification: verification, AnswerType: atype, Broken: broken, Answer: strings.Join(marked, ", "), Want: want}
						w.RunCase(fmt.Sprint("parse-error", verification, atype, broken, marked), func() *fw.Violation {
							if !want {
								w.Nontrivial()
							}
							w.Count("parse-error-questions", 1)
							return c20ParseErrCase(in)
						})
					}
				}
			}
		}
	}
}
