package checks

import (
	"encoding/json"
	"fmt"
	"regexp"
	"sort"
	"strings"
	"time"

	"verif/mc/fw"
	"verif/mc/pt"
	"verif/mc/ref"
	"verif/mc/run"
)

// C02 — accepted programs never go wrong (type soundness).

func init() {
	fw.Register(&fw.Check{
		ID:    "C02",
		Level: "exploration",
		Rule: "every program below that the REAL parser accepts is run under the recording platform: (1) every built-in x every tuple of argument value classes of its declared parameter types " +
			"(13 num classes incl. 2^31, 2^63, 1e300, NaN, +-Inf; 7 string classes; arrays/maps incl. empty, nested, mixed, wrong-length vertex; each also held in an any; variadics with 0..3 " +
			"arguments, arity >= 3 pairwise-complete in quick); (2) all untyped expression trees with <= 1 (quick) / 2 (thorough) operators over leaves of every type and kind in declaration, " +
			"assignment, argument, condition, index and range contexts; (3) the C04 typing matrix; (4) structural programs (recursion, shadowing in loops, none-typed values, huge repetitions). " +
			"Oracle: the run ends only by completion, a documented Evy panic, exit, failed test or the step budget - never an internal error, a Go panic, process death or a hang; typeof of an " +
			"any never reports 'any' or 'none'. Non-trivial = the parser accepted the program.",
		Assumptions: []string{"faithful execution of a huge but legal request (e.g. [0]*1e9) is excluded from the alphabet; counts that cannot be honoured (>= 2^48 elements) stay in",
			"process deaths and hangs are attributed to their input by the worker journal and the supervisor watchdog"},
		TrustedBase: []string{"classification of evaluator errors with errors.Is against the exported sentinels (/verif/mc/run)"},
		Run:         runC02,
		Replay: func(sub string, in json.RawMessage) *fw.Violation {
			var d DiffInput
			if json.Unmarshal(in, &d) != nil || d.Src == "" {
				var s string
				json.Unmarshal(in, &s)
				d.Src = s
			}
			return checkC02(nil, d.Src)
		},
		Watchdog:      60 * time.Second,
		Resumable:     true,
		DeadlineQuick: 5 * time.Minute, DeadlineThorough: 25 * time.Minute,
		Vacuity: func(m *fw.Result) string {
			if m.Nontrivial < 20000 || len(m.Outcomes) < 8 {
				return fmt.Sprint("too few accepted programs or outcomes: ", m.Nontrivial, " ", len(m.Outcomes))
			}
			for name := range ref.BuiltinSigs {
				if m.Counters["builtin:"+name] == 0 {
					return "built-in never exercised in an accepted program: " + name
				}
			}
			return ""
		},
	})
}

var c02Nums = []pt.Expr{pt.N(0), pt.N(1), pt.N(-1), pt.N(0.5), pt.N(-0.5), pt.N(2147483647), pt.N(2147483648), pt.N(9223372036854775808), pt.N(1e300), pt.N(-1e300),
	pt.Group{X: pt.Bin("/", pt.N(0), pt.N(0))}, pt.Group{X: pt.Bin("/", pt.N(1), pt.N(0))}, pt.Group{X: pt.Bin("/", pt.N(-1), pt.N(0))}}
var c02Strs = []pt.Expr{pt.S(""), pt.S("a"), pt.S("ä€😀"), pt.S("%s%d%"), pt.S("\n"), pt.S("true"), pt.S("1e999")}
var c02Bools = []pt.Expr{pt.B(true), pt.B(false)}
var c02Arrs = []pt.Expr{pt.A(), pt.A(pt.N(1), pt.N(2)), pt.A(pt.S("a")), pt.A(pt.A(pt.N(1)), pt.A(pt.N(2))), pt.A(pt.N(1), pt.S("a")), pt.A(pt.N(1), pt.N(2), pt.N(3)), pt.A(pt.A())}
var c02Maps = []pt.Expr{pt.M(), pt.M("a", pt.N(1)), pt.M("family", pt.S("x"), "size", pt.N(2)), pt.M("size", pt.N(0)), pt.M("a", pt.A(pt.N(1))), pt.M("baseline", pt.S("top"), "zz", pt.B(true))}

func c02ValuesFor(t *pt.Type) []pt.Expr {
	switch {
	case t.K == pt.Num:
		return c02Nums
	case t.K == pt.Str:
		return c02Strs
	case t.K == pt.Bool:
		return c02Bools
	case t.K == pt.Arr && t.Sub == nil:
		return c02Arrs
	case t.K == pt.Map && t.Sub == nil:
		return c02Maps
	case t.K == pt.Arr:
		return []pt.Expr{pt.A(), pt.A(pt.N(1), pt.N(2)), pt.A(pt.N(1)), pt.A(pt.N(1), pt.N(2), pt.N(3)), pt.A(pt.Group{X: pt.Bin("/", pt.N(0), pt.N(0))}, pt.N(1e300))}
	case t.K == pt.Map:
		return c02Maps
	}
	// any: one representative of everything
	var all []pt.Expr
	all = append(all, c02Nums[0], c02Nums[3], c02Nums[8], c02Nums[10], c02Nums[11])
	all = append(all, c02Strs[0], c02Strs[2], c02Strs[3])
	all = append(all, c02Bools...)
	all = append(all, c02Arrs...)
	all = append(all, c02Maps[:3]...)
	all = append(all, pt.V("xn"), pt.V("xa"), pt.V("xm")) // any-typed variables holding a num / array / map
	return all
}

var c02AnyVars = []pt.Stmt{
	pt.TypedDecl{Name: "xn", T: pt.TAny}, pt.Assign{Target: pt.V("xn"), X: pt.N(7)},
	pt.TypedDecl{Name: "xa", T: pt.TAny}, pt.Assign{Target: pt.V("xa"), X: pt.A(pt.N(1), pt.S("b"))},
	pt.TypedDecl{Name: "xm", T: pt.TAny}, pt.Assign{Target: pt.V("xm"), X: pt.M("k", pt.N(1))},
}

func runC02(w *fw.Worker) {
	emit := func(prog *pt.Prog) {
		src := pt.Source(prog)
		w.Case(src, func() *fw.Violation { return checkC02(w, src) })
	}
	emitSrc := func(src string) { w.Case(src, func() *fw.Violation { return checkC02(w, src) }) }
	// (1) built-ins x argument classes
	names := make([]string, 0, len(ref.BuiltinSigs))
	for n := range ref.BuiltinSigs {
		names = append(names, n)
	}
	sort.Strings(names)
	for _, name := range names {
		sig := ref.BuiltinSigs[name]
		var arities [][]*pt.Type
		if sig.Variadic {
			for n := 0; n <= 3; n++ {
				ts := make([]*pt.Type, n)
				for i := range ts {
					ts[i] = sig.Params[0]
				}
				arities = append(arities, ts)
			}
			if name == "ellipse" || name == "hsl" {
				for n := 4; n <= 8; n++ {
					ts := make([]*pt.Type, n)
					for i := range ts {
						ts[i] = sig.Params[0]
					}
					arities = append(arities, ts)
				}
			}
		} else {
			arities = [][]*pt.Type{sig.Params}
		}
		for _, ts := range arities {
			vals := make([][]pt.Expr, len(ts))
			for i, t := range ts {
				vals[i] = c02ValuesFor(t)
			}
			emitTuple := func(idx []int) {
				args := make([]pt.Expr, len(ts))
				for i := range ts {
					args[i] = vals[i][idx[i]]
				}
				call := pt.Call{Name: name, Args: args}
				var body []pt.Stmt
				if sig.Ret.K == pt.None {
					body = []pt.Stmt{pt.CallStmt{C: call}}
				} else {
					body = []pt.Stmt{pt.InferDecl{Name: "r", X: call}, pt.Print(pt.V("r"), pt.C("typeof", pt.V("r")))}
				}
				stmts := append(append([]pt.Stmt(nil), c02AnyVars...), pt.Print(pt.V("xn"), pt.V("xa"), pt.V("xm")))
				stmts = append(stmts, body...)
				emit(&pt.Prog{Stmts: stmts})
			}
			idx := make([]int, len(ts))
			if len(ts) >= 3 && (w.Quick() || len(ts) >= 4) {
				// arity >= 3 (quick) / >= 4: all tuples in which at most two positions leave their first class
				// (every pair of classes of every pair of positions occurs), enumerated directly
				emitTuple(idx)
				for i := range ts {
					for vi := 1; vi < len(vals[i]); vi++ {
						idx[i] = vi
						emitTuple(idx)
						for j := i + 1; j < len(ts); j++ {
							for vj := 1; vj < len(vals[j]); vj++ {
								idx[j] = vj
								emitTuple(idx)
							}
							idx[j] = 0
						}
					}
					idx[i] = 0
					if w.Expired() {
						return
					}
				}
				continue
			}
			for {
				if w.Expired() {
					return
				}
				emitTuple(idx)
				i := len(idx) - 1
				for ; i >= 0; i-- {
					idx[i]++
					if idx[i] < len(vals[i]) {
						break
					}
					idx[i] = 0
				}
				if i < 0 {
					break
				}
			}
		}
	}
	// (2) untyped expression trees in several contexts
	decls := []pt.Stmt{
		pt.InferDecl{Name: "n", X: pt.N(2)}, pt.InferDecl{Name: "s", X: pt.S("ab")}, pt.InferDecl{Name: "b", X: pt.B(true)},
		pt.InferDecl{Name: "a", X: pt.A(pt.N(1), pt.N(2))}, pt.InferDecl{Name: "m", X: pt.M("a", pt.N(1))},
		pt.InferDecl{Name: "aa", X: pt.A(pt.N(1), pt.S("x"))}, pt.InferDecl{Name: "e", X: pt.A()},
		pt.Print(pt.V("n"), pt.V("s"), pt.V("b"), pt.V("a"), pt.V("m"), pt.V("aa"), pt.V("e")),
	}
	decls = append(append([]pt.Stmt(nil), c02AnyVars...), decls...)
	decls = append(decls, pt.Print(pt.V("xn"), pt.V("xa"), pt.V("xm")))
	leaves := []pt.Expr{pt.V("n"), pt.V("s"), pt.V("b"), pt.V("a"), pt.V("m"), pt.V("aa"), pt.V("e"), pt.V("xn"), pt.V("xa"), pt.V("xm"),
		pt.N(1), pt.N(-1), pt.N(0.5), pt.N(1e300), pt.S("x"), pt.S(""), pt.B(false), pt.A(), pt.M(), pt.A(pt.N(3)), pt.A(pt.A()), pt.M("a", pt.A()),
		pt.Group{X: pt.Bin("/", pt.N(0), pt.N(0))}, pt.N(1e18)}
	small := leaves[:10]
	binops := []string{"+", "-", "*", "/", "%", "<", "<=", ">", ">=", "==", "!=", "and", "or"}
	var level1 []pt.Expr
	build := func(ls []pt.Expr) []pt.Expr {
		var out []pt.Expr
		for _, l := range ls {
			out = append(out, pt.Unary{Op: "-", X: l}, pt.Unary{Op: "!", X: l}, pt.Dot{X: l, Key: "a"}, pt.Slice{X: l, Lo: pt.N(1)}, pt.Slice{X: l, Hi: pt.N(-1)},
				pt.Assert{X: l, T: pt.TNum}, pt.Assert{X: l, T: tNumArr}, pt.Assert{X: l, T: pt.ArrOf(pt.TAny)}, pt.Assert{X: l, T: pt.MapOf(pt.TNum)}, pt.Group{X: l})
			for _, r := range ls {
				for _, op := range binops {
					out = append(out, pt.Bin(op, l, r))
				}
				out = append(out, pt.Index{X: l, I: r}, pt.Slice{X: l, Lo: r, Hi: r})
			}
		}
		return out
	}
	level1 = build(leaves)
	exprs := append(append([]pt.Expr(nil), leaves...), level1...)
	if !w.Quick() {
		// two operators: an operator over (level-1 over the small leaf set) and a small leaf, both orders
		l1small := build(small)
		for _, x := range l1small {
			for _, y := range small {
				for _, op := range binops {
					exprs = append(exprs, pt.Bin(op, x, y), pt.Bin(op, y, x))
				}
				exprs = append(exprs, pt.Index{X: x, I: y}, pt.Index{X: y, I: x})
			}
			exprs = append(exprs, pt.Unary{Op: "-", X: x}, pt.Unary{Op: "!", X: x}, pt.Slice{X: x, Lo: pt.N(0)}, pt.Dot{X: x, Key: "a"}, pt.Assert{X: x, T: pt.TNum})
		}
	}
	for _, e := range exprs {
		if w.Expired() {
			return
		}
		ctxs := [][]pt.Stmt{
			{pt.InferDecl{Name: "r", X: e}, pt.Print(pt.V("r"), pt.C("typeof", pt.V("r"))), pt.Print(pt.S("typeof-var"), pt.C("typeof", pt.V("r")))},
			{pt.Print(e, pt.C("typeof", e))},
			{pt.TypedDecl{Name: "r", T: pt.TAny}, pt.Assign{Target: pt.V("r"), X: e}, pt.Print(pt.V("r"), pt.C("typeof", pt.V("r"))), pt.Print(pt.S("typeof-var"), pt.C("typeof", pt.V("r")))},
			{pt.If{Conds: []pt.Expr{e}, Blocks: [][]pt.Stmt{{pt.Print(pt.S("t"))}}, Else: []pt.Stmt{pt.Print(pt.S("f"))}}},
			{pt.For{Var: "i", Range: []pt.Expr{e}, Body: []pt.Stmt{pt.Print(pt.V("i"), pt.C("typeof", pt.V("i")))}}},
			{pt.Assign{Target: pt.Index{X: pt.V("a"), I: e}, X: pt.N(5)}, pt.Print(pt.V("a"))},
			{pt.Assign{Target: pt.Index{X: pt.V("m"), I: e}, X: pt.N(5)}, pt.Print(pt.V("m"))},
			{pt.Assign{Target: pt.Index{X: pt.V("aa"), I: pt.N(0)}, X: e}, pt.Print(pt.V("aa"), pt.C("typeof", pt.Index{X: pt.V("aa"), I: pt.N(0)}))},
			{pt.CallStmt{C: pt.C("f", e)}, pt.Func{Name: "f", Params: []pt.Param{{Name: "p", T: pt.TAny}}, Variadic: true,
				Body: []pt.Stmt{pt.Print(pt.V("p"), pt.C("typeof", pt.V("p")), pt.C("typeof", pt.Index{X: pt.V("p"), I: pt.N(0)}))}}},
		}
		for _, c := range ctxs {
			emit(&pt.Prog{Stmts: append(append([]pt.Stmt(nil), decls...), c...)})
		}
	}
	// (3) the typing matrix of C04, depth 2
	types := c04Types(2)
	values := c04Values(types)
	for _, T := range types {
		for _, val := range values {
			emit(&pt.Prog{Stmts: append(append([]pt.Stmt(nil), val.pre...), pt.TypedDecl{Name: "t", T: T}, pt.Assign{Target: pt.V("t"), X: val.x},
				pt.Print(pt.V("t"), pt.C("typeof", pt.V("t"))), pt.InferDecl{Name: "c", X: pt.A(pt.V("t"), pt.V("t"))}, pt.Print(pt.V("c"), pt.C("typeof", pt.V("c")), pt.Bin("==", pt.V("c"), pt.V("c"))))})
			emit(&pt.Prog{Stmts: append(append([]pt.Stmt(nil), val.pre...), pt.TypedDecl{Name: "t", T: pt.MapOf(T)}, pt.Assign{Target: pt.Dot{X: pt.V("t"), Key: "k"}, X: val.x},
				pt.Print(pt.V("t"), pt.C("typeof", pt.Dot{X: pt.V("t"), Key: "k"})), pt.For{Var: "k", Range: []pt.Expr{pt.V("t")}, Body: []pt.Stmt{pt.Print(pt.V("k"), pt.Bin("==", pt.Index{X: pt.V("t"), I: pt.V("k")}, pt.Index{X: pt.V("t"), I: pt.V("k")}))}})})
		}
	}
	// (4) structural programs
	for i, src := range c02Structural {
		if i == 0 {
			// one narrow class: elements of differently nested untyped empties joined by + are not wrapped for the any they are typed as
			w.Case(src, func() *fw.Violation {
				v := checkC02(w, src)
				if v != nil && strings.HasPrefix(v.Signature, "gopanic:evaluator.typeofFunc:interface conversion") {
					v.Signature = "nested-empty-concat-element-not-wrapped"
				}
				return v
			})
			continue
		}
		emitSrc(src)
	}
}

var c02Structural = []string{
	// differently nested untyped empties concatenated, an element taken out and ranged over: the loop variable is typed any
	"for x := range ([[]] + [[[]]])[1]\n    print (typeof x)\nend\n",
	"m := {}\nm.a = m\nprint m\n",
	"a := [1 \"x\"]\na[0] = a\nb := [1 \"x\"]\nb[0] = b\nprint (a == b)\n",
	"a := [1 \"x\"]\na[0] = a\nprint (len a) (typeof a) (typeof a[0])\n",
	"func f\n    f\nend\nf\n",
	"func f:num n:num\n    return (f n+1) + 1\nend\nprint (f 0)\n",
	"g := 0\nfor i := range 2\n    print i g+1\n    g := \"s\"\n    print g\nend\n",
	"g := 0\ni := 0\nwhile i < 2\n    i = i + 1\n    print g+1\n    g := \"s\"\n    print g\nend\n",
	"x := [1]*1e15\nprint (len x)\n",
	"x := [1 2 3]*3000000000\nprint (len x)\n",
	"x := [1 2 3]*4611686018427387904\nprint (len x)\n",
	"x := []*1e18\nprint (len x)\n",
	"y := []*2\nprint y (typeof y)\n",
	"x:[]any\nx = [1] + [2]\nprint x\n",
	"d := [(cls)]\nprint d\n",
	"x:any\nprint x.(num)\n",
	"x:any\nx = []\nprint x.([]any) (typeof x)\n",
	"x:any\nx = ([])\nprint (typeof x)\nprint x.([]any)\n",
	"x:any\nx = {}\ny := x.({}any)\ny.a = 1\nprint x y\n",
	"a := [[]]\na[0] = [1]\nprint a (typeof a) (typeof a[0])\n",
	"m := {}\nm.a = {}\nm.a.b = 1\nprint m\n",
	"m := {a:{}}\nx := m.a\nprint (typeof x) (typeof m.a) (typeof m)\n",
	"func f:any\n    return 1\nend\nx := f\nprint (typeof x) x.(num)+1\n",
	"func f:[]any\n    return []\nend\nx := f\nx = x + [1]\nprint x (typeof x) (typeof x[0])\n",
	"func f:[]any a:any...\n    return a\nend\nprint (f) (f 1 [2]) (typeof (f 1))\n",
	"func f a:[]num...\n    print a (typeof a)\nend\nf [] [1] []\n",
	"on key\n    print 1\nend\non down x:num _:num\n    print x\nend\n",
	"arr := [1 2 3]\narr[(len arr)-1] = arr[-1] * 2\nprint arr[-1:] arr[:-1][0]\n",
	"s := \"a€\"\nprint s[-1] s[1:][0] (len s[:1])\n",
	"m := {}\nfor k := range m\n    print k\nend\nfor k := range {}\n    print k\nend\nfor e := range []\n    print e\nend\n",
	"for e := range [[] [1]]\n    print e (typeof e)\nend\n",
	"for e := range [1 \"a\" []]\n    print e (typeof e)\nend\n",
	"x := 1\nx = x\nprint x (-x) (--x) !(x == x)\n",
	"print 1 // c\n\n\n",
	"a := [1 2]\nb := a\nb[0] = a[1]\nprint a b (a == b) (a == [2 2])\n",
	"m := {a:1}\nprint m[\"a\"] (m == {a:1}) ({} == {}) ([] == []) ([[]] == [[]])\n",
	"x:any\ny:any\nprint (x == y) (x != y)\nx = 1\ny = \"1\"\nprint (x == y)\n",
	"t:[]{}[]any\nt = [{a:[1 \"x\" []]} {}]\nprint t (typeof t) (typeof t[0].a[2])\n",
	// a name whose declaration failed is used afterwards: follow-on errors, never a crash
	"on key k:strin\n    if k == \"q\"\n        print k[0] k+\"x\" -k !k k[1:]\n    end\nend\n",
	"func f a:nu b:[]strin\n    print a+1 b[0] a<b (len b) b+b\n    a = b\n    b[0] = a\nend\nf 1 [2]\n",
	"x:nu\ny := x + 1\nprint x[0] y x.k -x\nx = y\nfor e := range x\n    print e\nend\n",
	"func g:nu\n    return 1\nend\nz := (g) + 1\nprint z (g)[0]\n",
	"for i := range \n    print i+1 i[0]\nend\nfor j := range 1 2 3 4\n    print j+\"s\"\nend\n",
	"a := [1 2\nprint a[0] a+a\nm := {k:\nprint m.k\n",
	// nested literals whose inner literals have different element types: every element is usable as the any its static type says
	"a := [[\"x\" \"y\"] [10 20]]\nprint (typeof a) (typeof a[0]) (typeof a[0][0]) (typeof a[1][1]) (a[0][0] == a[1][0]) (len a[0])\nprint a[1][0].(num) a[0][1].(string)\nfor r := range a\n    for e := range r\n        print e (typeof e)\n    end\nend\nprintf \"%v %v\\n\" a[0][0] a[1][1]\ntest a[0][0] \"x\"\n",
	"a := [{a:1} {a:\"s\"}]\nprint (typeof a) (typeof a[0]) (typeof a[0].a) (a[0].a == a[1].a)\nprint a[0].a.(num) a[1].a.(string)\nfor m := range a\n    for k := range m\n        print k m[k] (typeof m[k])\n    end\nend\n",
	"a := {p:[1] q:[true]}\nprint (typeof a) (typeof a.p[0]) (a.p[0] == a.q[0])\nb := [[[1]] [[\"a\"]]]\nprint (typeof b) (typeof b[0][0][0]) b[1][0][0].(string)\n",
	// equality between any values of the same kind but other element types
	"x:any\ny:any\nx = [1 2]\ny = [\"1\" \"2\"]\nprint (x == y) (x != y)\nx = {k:1}\ny = {k:\"1\"}\nprint (x == y)\nx = [[1]]\ny = [[true]]\nprint (x == y)\n",
	"xs:[]any\nxs = [[1 2] [\"1\" \"2\"] {k:1} {k:\"1\"} [] {}]\nfor a := range xs\n    for b := range xs\n        print (a == b)\n    end\nend\n",
	// slice and index expressions whose own operands fail
	"a := [1 2 3]\nprint a[1:a[7]]\n", "a := [1 2 3]\nprint a[a[7]:]\n", "s := \"abc\"\nprint s[0:(str2num s)+9]\n", "a := [1 2 3]\nprint a[a[0]:a[1]] a[a[2]]\n",
}

var digitsRe = regexp.MustCompile(`[0-9]+`)

// checkC02 runs src if the parser accepts it and applies the soundness oracle.
func checkC02(w *fw.Worker, src string) *fw.Violation {
	prog, _, gp := run.Parse(src)
	in := DiffInput{Src: src}
	if gp != "" {
		return &fw.Violation{Sub: "sound", Signature: "parser-gopanic:" + run.PanicSite(gp), What: "parser panicked", Input: in, Observed: gp}
	}
	if prog == nil {
		if w != nil {
			w.Outcome("rejected")
		}
		return nil
	}
	o := run.Run(src, run.Opts{Budget: 20000, Inputs: []string{"l1", "l2"}})
	if w != nil {
		w.Nontrivial()
		w.Outcome(o.Class)
		for _, name := range prog.CalledBuiltinFuncs {
			w.Count("builtin:"+name, 1)
		}
		if len(src) < 200 && strings.Count(src, "\n") < 12 && (o.Class != "ok" || len(src) < 120) {
			w.Sample(src)
		}
	}
	switch {
	case o.Class == "gopanic":
		msg := digitsRe.ReplaceAllString(fw.FirstLine(o.GoPanic), "#")
		return &fw.Violation{Sub: "sound", Signature: "gopanic:" + run.PanicSite(o.GoPanic) + ":" + fw.Trunc(msg, 60), What: "an accepted program crashed the host runtime (Go panic)", Input: in,
			Expected: "completion, Evy panic, exit, failed test or stop", Observed: o.GoPanic}
	case o.Class == "internal" || o.Class == "unknown-error":
		return &fw.Violation{Sub: "sound", Signature: "internal-error:" + fw.Trunc(digitsRe.ReplaceAllString(stripLoc(o.Err), "#"), 60), What: "an accepted program ended with an internal / type error", Input: in,
			Expected: "completion, Evy panic, exit, failed test or stop", Observed: o.Err}
	case o.Class == "panic:var-not-set":
		return &fw.Violation{Sub: "sound", Signature: "var-not-set", What: "an accepted program read a variable that has no value", Input: in, Observed: o.Err}
	}
	// typeof never reports any / none at top level
	for _, e := range o.Trace {
		if !strings.HasPrefix(e, "print:") {
			continue
		}
		// the type of a value held by a variable is concrete down to its leaves: it ends in num, string, bool or any, never in an untyped [] / {}
		if t, ok := strings.CutPrefix(strings.TrimSpace(e[6:]), "typeof-var "); ok {
			if strings.HasSuffix(t, "]") || strings.HasSuffix(t, "}") || t == "any" || t == "none" {
				return &fw.Violation{Sub: "sound", Signature: "typeof-variable-untyped:" + t, What: "a variable holds a value whose type is not concrete (untyped empty composite)", Input: in, Observed: e}
			}
			continue
		}
		for _, f := range strings.Fields(e[6:]) {
			if f == "any" || f == "none" || f == "ILLEGAL" || strings.HasSuffix(f, "none") {
				return &fw.Violation{Sub: "sound", Signature: "typeof-reports:" + f, What: "typeof reported a non-concrete type for a run-time value", Input: in, Observed: e}
			}
		}
	}
	return nil
}
