package checks

import (
	"fmt"

	"verif/mc/fw"
	"verif/mc/pt"
	"verif/mc/ref"
	"verif/mc/run"
)

// DiffInput is the replayable input of a differential case.
type DiffInput struct {
	Src    string   `json:"src"`
	Inputs []string `json:"inputs,omitempty"`
}

// classCompatible compares result classes; the reference's "huge-index" class leaves latitude
// between bounds and index-value (float→int conversion beyond int64 is implementation defined).
func classCompatible(refc, implc string) bool {
	if refc == implc {
		return true
	}
	if refc == "panic:huge-index" && (implc == "panic:bounds" || implc == "panic:index-value") {
		return true
	}
	return false
}

// diffProg runs src on the implementation and prog on the reference and compares trace and class.
// skip=true when the reference declares latitude / resource limits (nothing is judged).
func diffProg(w *fw.Worker, sub, src string, prog *pt.Prog, inputs []string) (v *fw.Violation, skip bool) {
	if err := ref.Check(prog); err != nil {
		// not a well-typed program by the reference rules (or latitude): outside this oracle's domain
		if w != nil {
			if _, lat := err.(*ref.LatitudeErr); lat {
				w.Count("ref-skip:latitude-static", 1)
			} else {
				w.Count("ref-skip:ill-typed", 1)
				w.Count("ref-skip:ill-typed:"+sub, 1)
			}
		}
		return nil, true
	}
	ro := ref.RunProg(prog, ref.Opts{Inputs: inputs})
	switch ro.Class {
	case "latitude", "resource", "budget":
		if w != nil {
			w.Count("ref-skip:"+ro.Class, 1)
		}
		return nil, true
	case "ref-type-error":
		panic("generator produced a program the reference cannot type: " + ro.Msg + "\n" + src)
	}
	io := run.Run(src, run.Opts{Inputs: inputs})
	if w != nil {
		w.Outcome(io.Class)
	}
	in := DiffInput{Src: src, Inputs: inputs}
	switch {
	case io.Class == "parse-error":
		return &fw.Violation{Sub: sub, Signature: "ref-accepts-parser-rejects:" + msgKind(stripLoc(fw.FirstLine(io.ParseErr))), What: "a program the reference semantics accepts is rejected by the parser",
			Input: in, Expected: "accepted; " + ro.Class + " " + run.Show(ro.Trace), Observed: io.ParseErr}, false
	case io.Class == "gopanic":
		return &fw.Violation{Sub: sub, Signature: "gopanic:" + run.PanicSite(io.GoPanic), What: "the host runtime panicked", Input: in,
			Expected: ro.Class + " " + run.Show(ro.Trace), Observed: io.GoPanic}, false
	case io.Class == "internal" || io.Class == "unknown-error":
		return &fw.Violation{Sub: sub, Signature: "internal-error", What: "internal evaluator error", Input: in, Expected: ro.Class, Observed: io.Err}, false
	}
	if !classCompatible(ro.Class, io.Class) {
		return &fw.Violation{Sub: sub, Signature: "result-class:" + ro.Class + "->" + io.Class, What: "run ends differently from the reference semantics", Input: in,
			Expected: ro.Class + " " + ro.Msg + " ; trace " + run.Show(ro.Trace), Observed: io.Class + " " + io.Err + " ; trace " + run.Show(io.Trace)}, false
	}
	if run.TraceString(ro.Trace) != run.TraceString(io.Trace) {
		return &fw.Violation{Sub: sub, Signature: "trace-differs", What: "effects differ from the reference semantics", Input: in,
			Expected: run.Show(ro.Trace), Observed: run.Show(io.Trace)}, false
	}
	return nil, false
}

func stripLoc(s string) string {
	if m := locRe.FindString(s); m != "" {
		return s[len(m):]
	}
	return s
}

var _ = fmt.Sprint
