package checks

import (
	"encoding/json"
	"fmt"
	"math"
	"strings"
	"time"

	"evylang.dev/evy/pkg/evaluator"
	"verif/mc/astconv"
	"verif/mc/fw"
	"verif/mc/pt"
	"verif/mc/ref"
	"verif/mc/run"
)

// C15 — events run their handlers in order, isolated, on shared globals.

func init() {
	fw.Register(&fw.Check{
		ID:    "C15",
		Level: "model_checking",
		Rule: "explicit-state exploration of event histories: programs = every single handler and every pair of handlers out of {key, down, up, move, animate, input} with every accepted " +
			"signature shape (no parameters, all named, '_' in each position) and a body from a menu of 9 (print payload, update a global counter/string/array/map, shadow a global by a local, " +
			"call a user function, return early, fresh local), single-handler programs also behind three top-level preludes that leave loops and functions early before the globals are declared; events = all sequences to depth 4 (quick) / 5 (thorough) over the events whose handler exists (2 payloads each, incl. non-ASCII, " +
			"empty, fractional and NaN). After every delivered event the cumulative platform trace is compared with (1) the reference interpreter and (2) the equivalent procedure " +
			"program (handlers turned into functions, events into calls) run on the real evaluator. States = distinct (program, printed globals) pairs reached; transitions = deliveries.",
		Assumptions:   []string{"handler bodies are drawn from the menu; the browser event loop (pkg/wasm) is not executed"},
		TrustedBase:   []string{"reference interpreter"},
		Run:           runC15,
		Replay:        replayC15,
		DeadlineQuick: 4 * time.Minute, DeadlineThorough: 25 * time.Minute,
		Vacuity: func(m *fw.Result) string {
			if m.Counters["transitions"] < 10000 || m.Counters["states"] < 500 {
				return fmt.Sprint("too few transitions/states: ", m.Counters)
			}
			return ""
		},
	})
}

type c15Event struct {
	Name    string `json:"name"`
	Payload []any  `json:"payload"` // float64 | string ; NaN encoded as "NaN!" for JSON
}

type c15Input struct {
	Src    string     `json:"src"`
	Events []c15Event `json:"events"`
}

var c15Payloads = map[string][][]any{
	"key":     {{"a"}, {"é"}, {""}},
	"down":    {{1.0, 2.0}, {0.5, math.NaN()}},
	"up":      {{3.0, 4.0}, {-1.0, 0.0}},
	"move":    {{5.0, 6.0}, {0.25, 100.0}},
	"animate": {{16.0}, {33.5}},
	"input":   {{"x", "1"}, {"", ""}},
}

// c15BadPayloads: one payload per event whose FIRST element has the wrong type and whose last is fine (plus one all-wrong for key):
// the event is reported (conversion error) and its handler does not run - unless the handler declares no parameters at all.
var c15BadPayloads = map[string][][]any{
	"key":     {{1.0}},
	"down":    {{"one", 2.0}},
	"up":      {{true, 5.0}},
	"move":    {{"a", 6.0}, {5.0, "b"}},
	"animate": {{"x"}},
	"input":   {{7.0, "v"}},
}

var c15Order = []string{"key", "down", "up", "move", "animate", "input"}

func c15Params(name string, shape int) []pt.Param {
	sig := ref.EventSigs[name]
	if shape == 0 {
		return nil
	}
	var ps []pt.Param
	shadow := shape == 2+len(sig) // last shape: the first parameter has the name of a global of the same type (legal shadowing)
	for i, t := range sig {
		n := fmt.Sprintf("p%d", i)
		if !shadow && shape >= 2 && (shape-2) == i { // '_' in position shape-2
			n = "_"
		}
		if shadow && i == 0 {
			n = "cnt"
			if t.K == pt.Str {
				n = "lg"
			}
		}
		ps = append(ps, pt.Param{Name: n, T: t})
	}
	return ps
}

func c15Shapes(name string) int {
	if len(ref.EventSigs[name]) == 0 {
		return 2
	}
	return 3 + len(ref.EventSigs[name])
}

func c15Body(name string, ps []pt.Param, body int) []pt.Stmt {
	var payload []pt.Expr
	for _, p := range ps {
		if p.Name != "_" {
			payload = append(payload, pt.V(p.Name))
		}
	}
	tag := pt.S(name)
	pr := func(xs ...pt.Expr) pt.Stmt {
		return pt.CallStmt{C: pt.Call{Name: "print", Args: append(append([]pt.Expr{tag}, xs...), payload...)}}
	}
	inc := pt.Assign{Target: pt.V("cnt"), X: pt.Bin("+", pt.V("cnt"), pt.N(1))}
	switch body {
	case 0:
		return []pt.Stmt{pr()}
	case 1:
		return []pt.Stmt{inc, pr(pt.V("cnt"))}
	case 2:
		return []pt.Stmt{pt.Assign{Target: pt.V("lg"), X: pt.Bin("+", pt.V("lg"), pt.S(name[:1]))}, pr(pt.V("lg"))}
	case 3:
		return []pt.Stmt{pt.Assign{Target: pt.V("arr"), X: pt.Bin("+", pt.V("arr"), pt.A(pt.C("len", pt.V("arr"))))}, pr(pt.V("arr"))}
	case 4:
		return []pt.Stmt{pt.Assign{Target: pt.Index{X: pt.V("m"), I: pt.S(name)}, X: pt.C("len", pt.V("m"))}, pt.Assign{Target: pt.Index{X: pt.V("arr2"), I: pt.N(0)}, X: pt.Bin("+", pt.Index{X: pt.V("arr2"), I: pt.N(0)}, pt.N(1))}, pr(pt.V("m"), pt.V("arr2"))}
	case 5:
		return []pt.Stmt{pt.InferDecl{Name: "cnt", X: pt.S("local")}, pr(pt.V("cnt"))}
	case 6:
		return []pt.Stmt{pt.CallStmt{C: pt.C("bump", pt.N(10))}, pr(pt.V("cnt"))}
	case 7:
		return []pt.Stmt{pt.If{Conds: []pt.Expr{pt.Bin(">=", pt.V("cnt"), pt.N(2))}, Blocks: [][]pt.Stmt{{pr(pt.S("early")), pt.Return{}}}}, inc, pr(pt.V("cnt"))}
	case 9:
		// the global is updated, then shadowed by a local of the same name: the next delivery starts from the global again
		return []pt.Stmt{inc, pt.Print(pt.S("g"), pt.V("cnt")), pt.InferDecl{Name: "cnt", X: pt.S("local")}, pr(pt.V("cnt"))}
	default:
		return []pt.Stmt{pt.InferDecl{Name: "loc", X: pt.N(0)}, pt.Assign{Target: pt.V("loc"), X: pt.Bin("+", pt.V("loc"), pt.N(1))}, inc, pr(pt.V("loc"))}
	}
}

const c15Bodies = 10

var c15Globals = []pt.Stmt{
	pt.InferDecl{Name: "cnt", X: pt.N(0)},
	pt.InferDecl{Name: "lg", X: pt.S("")},
	pt.TypedDecl{Name: "arr", T: tNumArr},
	pt.TypedDecl{Name: "m", T: tNumMap},
	pt.InferDecl{Name: "arr2", X: pt.A(pt.N(0))},
	pt.Print(pt.S("top"), pt.V("cnt"), pt.V("lg"), pt.V("arr"), pt.V("m"), pt.V("arr2")),
	pt.Func{Name: "bump", Params: []pt.Param{{Name: "by", T: pt.TNum}}, Body: []pt.Stmt{pt.Assign{Target: pt.V("cnt"), X: pt.Bin("+", pt.V("cnt"), pt.V("by"))}}},
}

type c15Handler struct {
	name        string
	shape, body int
	top         int // index into c15Tops (taken from the first handler of a program)
}

// c15Tops are top-level preludes that run control flow before the globals are declared: whatever the top-level code did (left a
// loop early, returned from inside nested blocks, ran a block with locals), handlers see the globals declared afterwards.
var c15Tops = [][]pt.Stmt{
	nil,
	{pt.For{Var: "i", Range: []pt.Expr{pt.N(3)}, Body: []pt.Stmt{pt.If{Conds: []pt.Expr{pt.Bin("==", pt.V("i"), pt.N(1))}, Blocks: [][]pt.Stmt{{pt.Break{}}}}, pt.Print(pt.S("pre"), pt.V("i"))}}},
	{pt.While{Cond: pt.B(true), Body: []pt.Stmt{pt.InferDecl{Name: "tmp", X: pt.N(1)}, pt.For{Var: "c", Range: []pt.Expr{pt.S("ab")}, Body: []pt.Stmt{pt.Print(pt.S("pre"), pt.V("c"), pt.V("tmp")), pt.Break{}}}, pt.Break{}}}},
	{pt.CallStmt{C: pt.C("early")}, pt.If{Conds: []pt.Expr{pt.B(true)}, Blocks: [][]pt.Stmt{{pt.InferDecl{Name: "tmp", X: pt.S("t")}, pt.Print(pt.S("pre"), pt.V("tmp"))}}},
		pt.Func{Name: "early", Body: []pt.Stmt{pt.For{Var: "k", Range: []pt.Expr{pt.M("a", pt.N(1), "b", pt.N(2))}, Body: []pt.Stmt{pt.While{Cond: pt.B(true), Body: []pt.Stmt{pt.Print(pt.S("pre"), pt.V("k")), pt.Return{}}}}}}}},
}

func c15Prog(hs []c15Handler) *pt.Prog {
	var stmts []pt.Stmt
	if len(hs) > 0 {
		stmts = append(stmts, c15Tops[hs[0].top]...)
	}
	stmts = append(stmts, c15Globals...)
	for _, h := range hs {
		ps := c15Params(h.name, h.shape)
		stmts = append(stmts, pt.On{Name: h.name, Params: ps, Body: c15Body(h.name, ps, h.body)})
	}
	return &pt.Prog{Stmts: stmts}
}

func runC15(w *fw.Worker) {
	depth := 4
	if !w.Quick() {
		depth = 5
	}
	var progs [][]c15Handler
	for _, n := range c15Order {
		for s := 0; s < c15Shapes(n); s++ {
			for b := 0; b < c15Bodies; b++ {
				progs = append(progs, []c15Handler{{n, s, b, 0}})
			}
		}
	}
	for _, n := range c15Order {
		for b := 0; b < c15Bodies; b++ {
			for top := 1; top < len(c15Tops); top++ {
				progs = append(progs, []c15Handler{{n, 1, b, top}})
			}
		}
	}
	for i, a := range c15Order {
		for _, bn := range c15Order[i+1:] {
			for sa := 0; sa < c15Shapes(a); sa++ {
				for ba := 1; ba < c15Bodies; ba++ {
					// second handler: one shape, bodies that share state with the first
					for _, bb := range []int{1, 4, 5, 7} {
						if w.Quick() && (sa+ba+bb)%3 != 0 {
							continue
						}
						progs = append(progs, []c15Handler{{a, sa, ba, 0}, {bn, 1, bb, 0}})
					}
				}
			}
		}
	}
	if w.Shard == 0 || w.NShards == 1 {
		c15DeclaredTypes(w)
	}
	states := map[string]bool{}
	for pi, hs := range progs {
		if w.Expired() {
			return
		}
		prog := c15Prog(hs)
		src := pt.Source(prog)
		if !w.Mine(src) {
			continue
		}
		if err := ref.Check(prog); err != nil {
			if hs[0].shape == c15Shapes(hs[0].name)-1 && len(ref.EventSigs[hs[0].name]) > 0 {
				w.Count("shadowing-shape-ill-typed-with-this-body", 1) // e.g. the body declares a local with the parameter's name
				continue
			}
			w.Internal("C15 generator produced an ill-typed program: " + err.Error() + "\n" + src)
			continue
		}
		// event alphabet for this program
		var alpha []c15Event
		for _, h := range hs {
			for _, p := range c15Payloads[h.name] {
				alpha = append(alpha, c15Event{h.name, p})
			}
		}
		var bad []c15Event
		for _, h := range hs {
			for _, pl := range c15BadPayloads[h.name] {
				bad = append(bad, c15Event{h.name, pl})
			}
		}
		var rec func(seq []c15Event)
		rec = func(seq []c15Event) {
			if len(seq) > 0 {
				in := c15Input{Src: src, Events: encodeEvents(seq)}
				key := src + "\x00" + fmt.Sprint(in.Events)
				w.RunCase(key, func() *fw.Violation {
					w.Nontrivial()
					w.Count("transitions", 1)
					w.Count("traces_validated_against_impl", 1)
					v, stateKey := checkC15(prog, src, seq)
					if stateKey != "" && !states[stateKey] {
						states[stateKey] = true
						w.Count("states", 1)
					}
					if pi%97 == 0 && len(seq) == 3 {
						w.Sample(in)
					}
					return v
				})
			}
			if len(seq) == depth {
				return
			}
			if len(seq) > 0 && len(seq[len(seq)-1].Payload) > 0 && isBadPayload(seq[len(seq)-1]) {
				return // an ill-typed delivery ends the history
			}
			if len(seq) < depth-1 || len(seq) == 0 {
				for _, e := range bad {
					rec(append(append([]c15Event(nil), seq...), e))
				}
			}
			for _, e := range alpha {
				if len(alpha) > 4 && len(seq) >= depth-1 && e.Name == seq[len(seq)-1].Name && len(seq) > 2 {
					// keep the fan-out of two-handler programs bounded at the last level: alternate handlers
					continue
				}
				rec(append(append([]c15Event(nil), seq...), e))
			}
		}
		rec(nil)
	}
}

// c15DeclaredTypes: a handler whose parameter (named or '_') is declared with a type other than the event's payload type. Such a
// declaration is a static error; whatever the parser decides, a handler of an ACCEPTED program runs exactly once per matching
// event ('_' ignores the payload) - a program that is accepted but whose handler can never be delivered to breaks the property.
func c15DeclaredTypes(w *fw.Worker) {
	for _, name := range c15Order {
		sig := ref.EventSigs[name]
		for pos := range sig {
			for _, pname := range []string{"_", "p"} {
				var ps []string
				for i, t := range sig {
					n, ty := fmt.Sprintf("q%d", i), t.String()
					if i == pos {
						n = pname
						if t.K == pt.Num {
							ty = "string"
						} else {
							ty = "num"
						}
					} else {
						n = "_"
					}
					ps = append(ps, n+":"+ty)
				}
				src := "on " + name + " " + strings.Join(ps, " ") + "\n    print \"ran\"\nend\n"
				seq := []c15Event{{name, c15Payloads[name][0]}}
				in := c15Input{Src: src, Events: encodeEvents(seq)}
				w.RunCase("declared\x00"+src, func() *fw.Violation {
					w.Nontrivial()
					w.Count("wrongly-typed-declarations", 1)
					return checkC15Declared(in.Src, seq)
				})
			}
		}
	}
}

func checkC15Declared(src string, seq []c15Event) *fw.Violation {
	in := c15Input{Src: src, Events: encodeEvents(seq)}
	var evs []evaluator.Event
	for _, e := range seq {
		evs = append(evs, evaluator.Event{Name: e.Name, Params: e.Payload})
	}
	o := run.Run(src, run.Opts{Events: evs})
	switch {
	case o.Class == "gopanic":
		return &fw.Violation{Sub: "declared-types", Signature: "gopanic:" + run.PanicSite(o.GoPanic), What: "host panic while handling events", Input: in, Observed: o.GoPanic}
	case o.Class == "parse-error":
		return nil // rejected: nothing runs (C05's business)
	case o.Class != "ok" || fmt.Sprint(o.EventErrs) != "[ok]" || run.TraceString(o.Trace) != run.TraceString([]string{"print:ran\n"}):
		return &fw.Violation{Sub: "declared-types", Signature: "accepted-handler-does-not-run", What: "the parser accepts a handler whose declared parameter type differs from the event's payload, and a delivered event does not run it exactly once",
			Input: in, Expected: "rejected at parse time, or the handler runs once", Observed: fmt.Sprint(o.Class, " ", o.EventErrs, " ", o.Err, " ", run.Show(o.Trace))}
	}
	return nil
}

func encodeEvents(seq []c15Event) []c15Event {
	out := make([]c15Event, len(seq))
	for i, e := range seq {
		out[i] = c15Event{e.Name, nil}
		for _, p := range e.Payload {
			if f, ok := p.(float64); ok && math.IsNaN(f) {
				out[i].Payload = append(out[i].Payload, "NaN!")
			} else {
				out[i].Payload = append(out[i].Payload, p)
			}
		}
	}
	return out
}

func decodeEvents(seq []c15Event, sigs map[string][]*pt.Type) []c15Event {
	out := make([]c15Event, len(seq))
	for i, e := range seq {
		out[i] = c15Event{e.Name, nil}
		for j, p := range e.Payload {
			if s, ok := p.(string); ok && s == "NaN!" && sigs[e.Name][j].K == pt.Num {
				out[i].Payload = append(out[i].Payload, math.NaN())
			} else {
				out[i].Payload = append(out[i].Payload, p)
			}
		}
	}
	return out
}

func replayC15(sub string, in json.RawMessage) *fw.Violation {
	var d c15Input
	json.Unmarshal(in, &d)
	if sub == "declared-types" {
		return checkC15Declared(d.Src, decodeEvents(d.Events, ref.EventSigs))
	}
	prog, errs, gp := run.Parse(d.Src)
	if prog == nil {
		return &fw.Violation{Sub: sub, Signature: "replay-parse", What: fmt.Sprint(errs, gp), Input: d}
	}
	p, err := astconv.Prog(prog)
	if err != nil {
		return &fw.Violation{Sub: sub, Signature: "replay-conv", What: err.Error(), Input: d}
	}
	v, _ := checkC15(p, d.Src, decodeEvents(d.Events, ref.EventSigs))
	return v
}

func isBadPayload(e c15Event) bool {
	for _, pl := range c15BadPayloads[e.Name] {
		if fmt.Sprint(pl) == fmt.Sprint(e.Payload) {
			return true
		}
	}
	return false
}

func payloadExpr(p any) pt.Expr {
	switch x := p.(type) {
	case float64:
		return numExpr(x)
	case string:
		return pt.S(x)
	}
	panic("payload")
}

// checkC15 delivers seq to prog on the implementation and on the reference, and compares both with
// the equivalent procedure program. It returns the canonical state key reached (printed globals).
func checkC15(prog *pt.Prog, src string, seq []c15Event) (*fw.Violation, string) {
	in := c15Input{Src: src, Events: encodeEvents(seq)}
	var evs []evaluator.Event
	for _, e := range seq {
		evs = append(evs, evaluator.Event{Name: e.Name, Params: e.Payload})
	}
	io := run.Run(src, run.Opts{Events: evs})
	if io.Class == "gopanic" {
		return &fw.Violation{Sub: "events", Signature: "gopanic:" + run.PanicSite(io.GoPanic), What: "host panic while handling events", Input: in, Observed: io.GoPanic}, ""
	}
	if io.Class != "ok" {
		return &fw.Violation{Sub: "events", Signature: "toplevel:" + io.Class, What: "top-level code did not complete", Input: in, Observed: io.Err}, ""
	}
	// (1) reference
	ri := ref.NewInterp(prog)
	if err := ri.Run(prog); err != nil {
		panic("C15 reference failed on top level: " + err.Error())
	}
	var refLens []int
	refLens = append(refLens, len(ri.Trace))
	var refErrs []string
	for _, e := range seq {
		var pl []ref.Val
		for _, p := range e.Payload {
			pl = append(pl, p)
		}
		err := ri.Event(e.Name, pl)
		refErrs = append(refErrs, ref.ClassOf(err))
		refLens = append(refLens, len(ri.Trace))
		if err != nil {
			break
		}
	}
	if fmt.Sprint(refErrs) != fmt.Sprint(io.EventErrs) {
		return &fw.Violation{Sub: "events", Signature: "handler-result", What: "HandleEvent results differ from the reference", Input: in,
			Expected: fmt.Sprint(refErrs), Observed: fmt.Sprint(io.EventErrs, " ", io.Err)}, ""
	}
	if fmt.Sprint(refLens) != fmt.Sprint(io.EvTraceLen) || run.TraceString(ri.Trace) != run.TraceString(io.Trace) {
		return &fw.Violation{Sub: "events", Signature: "trace-differs-from-reference", What: "cumulative effects after each event differ from the reference semantics", Input: in,
			Expected: fmt.Sprint(refLens, " ", run.Show(ri.Trace)), Observed: fmt.Sprint(io.EvTraceLen, " ", run.Show(io.Trace))}, ""
	}
	for _, re := range refErrs {
		if re != "ok" {
			return nil, "" // a reported delivery has no procedure-call equivalent; the history ends here
		}
	}
	// (2) equivalent procedure program on the real evaluator
	var stmts []pt.Stmt
	for _, s := range prog.Stmts {
		if h, ok := s.(pt.On); ok {
			stmts = append(stmts, pt.Func{Name: h.Name + "_h", Params: h.Params, Body: h.Body})
		} else {
			stmts = append(stmts, s)
		}
	}
	handlers := map[string]pt.On{}
	for _, s := range prog.Stmts {
		if h, ok := s.(pt.On); ok {
			handlers[h.Name] = h
		}
	}
	for _, e := range seq {
		call := pt.Call{Name: e.Name + "_h"}
		if len(handlers[e.Name].Params) > 0 {
			for _, p := range e.Payload {
				call.Args = append(call.Args, payloadExpr(p))
			}
		}
		stmts = append(stmts, pt.CallStmt{C: call})
	}
	psrc := pt.Source(&pt.Prog{Stmts: stmts})
	po := run.Run(psrc, run.Opts{})
	if po.Class != "ok" || run.TraceString(po.Trace) != run.TraceString(io.Trace) {
		return &fw.Violation{Sub: "events", Signature: "differs-from-procedures", What: "effects of the event sequence differ from calling the equivalent procedures in order", Input: in,
			Expected: po.Class + " " + po.Err + " " + run.Show(po.Trace) + "\nprocedure program:\n" + psrc, Observed: run.Show(io.Trace)}, ""
	}
	// canonical state: printed globals
	var sb strings.Builder
	for _, g := range []string{"cnt", "lg", "arr", "m", "arr2"} {
		sb.WriteString(ref.Str(ri.Global(g)) + "|")
	}
	return nil, fmt.Sprint(len(src), hash(src), sb.String())
}

func hash(s string) uint32 {
	var h uint32 = 2166136261
	for i := 0; i < len(s); i++ {
		h = (h ^ uint32(s[i])) * 16777619
	}
	return h
}
