//go:build verif

package checks

import (
	"encoding/json"
	"errors"
	"fmt"
	"regexp"
	"sort"
	"strings"
	"time"

	"evylang.dev/evy/pkg/bytecode"
	"evylang.dev/evy/pkg/parser"
	"verif/mc/astconv"
	"verif/mc/fw"
	"verif/mc/pt"
	"verif/mc/ref"
	"verif/mc/run"
)

// C16 — compiled bytecode behaves like the tree-walking evaluator.
// C17 — emitted bytecode is well formed and the VM cannot be crashed.

func init() {
	rule := "programs: (1) all nestings to depth 2 (quick) / 3 (thorough, 5-deviation bounded) of if/else-if/while/for x4/call with the scoping and control features of C10, observations recorded in " +
		"global trace arrays; (2) every well-typed expression tree with <= 2 operators (C01 generator, variables and literals) assigned to a global; (3) statement forms the compiler may not " +
		"know (typed declarations, calls, functions, handlers, return, and/or, field access and assignment, type assertion, any, literals of mixed type); (4) non-ASCII strings in index, slice and " +
		"range; map insert/overwrite/iteration order; element stores incl. negative and bad indices; nested composites and repetition. "
	fw.Register(&fw.Check{
		ID:    "C16",
		Level: "exploration",
		Rule: rule + "Oracle: a compile error is fine (rejected at compile time); otherwise no parsed statement may be left without emitted code and after VM.Run every global the evaluator " +
			"defines has the same value (repr form, via the verif hook) - or both fail with corresponding run-time errors (division/modulo by zero only on the VM). Non-trivial = the compiler " +
			"accepted the program.",
		Assumptions: []string{"all generated loops terminate (the VM has no step budget); a watchdog covers mis-patched jumps", "the evaluator is the reference (itself checked against the specification by C01/C09/C10/C11/C12)"},
		TrustedBase: []string{"verif hook file pkg/bytecode/zz_verif_hooks.go (read-only views)"},
		Run:         func(w *fw.Worker) { runBytecode(w, "C16") },
		Replay: func(sub string, in json.RawMessage) *fw.Violation {
			var d DiffInput
			json.Unmarshal(in, &d)
			return checkC16(nil, d.Src)
		},
		Watchdog: 60 * time.Second, DeadlineQuick: 5 * time.Minute, DeadlineThorough: 25 * time.Minute,
		Vacuity: func(m *fw.Result) string {
			if m.Counters["compiled"] < 5000 || m.Counters["rejected-at-compile-time"] < 100 || m.Counters["globals-compared"] < 10000 {
				return fmt.Sprint("too few compiled / rejected programs: ", m.Counters)
			}
			return ""
		},
	})
	fw.Register(&fw.Check{
		ID:    "C17",
		Level: "model_checking",
		Rule: rule + "(5) scaled programs that cross every 16-bit operand (constants, globals, jump distance, literal length at 65535/65536/65537) and nesting 1..70; (6) explicit-state BFS over all " +
			"sequences of {Push, Pop, Define x|y|z, Resolve x|y|z} to depth 7 (quick) / 9 (thorough) on the real SymbolTable. Oracle: static verifier = explicit-state exploration of the emitted " +
			"control-flow graph over (ip, stack height): known opcodes, operands inside the program, constant/global/local operands in range, jump targets on instruction boundaries, one " +
			"height per reachable ip, never below the locals area, back at it at the end; dynamic: VM.Run never panics and leaves sp = LocalCount; symbol table: live locals have distinct " +
			"slots, Resolve returns the innermost definition, every slot handed out is below the root's high-water mark. States = (ip,height) pairs + symbol-table states; transitions = CFG edges + table operations.",
		Assumptions: []string{"the opcode table (operand widths, stack effects) is read from pkg/bytecode/code.go and vm.go - there is no other specification"},
		TrustedBase: []string{"stack-effect table in /verif/mc/checks/c16.go (Appendix D of DESIGN.md)", "verif hook file"},
		Run:         func(w *fw.Worker) { runBytecode(w, "C17") },
		Replay: func(sub string, in json.RawMessage) *fw.Violation {
			if sub == "symtab" {
				var ops []string
				json.Unmarshal(in, &ops)
				return checkSymtab(ops)
			}
			var d DiffInput
			json.Unmarshal(in, &d)
			return checkC17(nil, d.Src)
		},
		Watchdog: 60 * time.Second, DeadlineQuick: 5 * time.Minute, DeadlineThorough: 25 * time.Minute,
		Vacuity: func(m *fw.Result) string {
			if m.Counters["states"] < 10000 || m.Counters["symtab-states"] < 500 {
				return fmt.Sprint("too few states: ", m.Counters)
			}
			return ""
		},
	})
}

// ---- program family --------------------------------------------------------------------------

var c16Prelude = []pt.Stmt{
	pt.InferDecl{Name: "tn", X: pt.A(pt.N(0))},
	pt.InferDecl{Name: "ts", X: pt.A(pt.S(""))},
}

var c16Fixed = []string{
	// constructs the compiler may not know
	"x:num\nx = 1\n", "s:string\ns = \"a\"\n", "a:[]num\na = a + [1]\n", "x:any\nx = 1\n",
	"x := 1\nprint x\n", "func f\n    x := 1\n    x = 2\nend\nf\n", "func f:num\n    return 1\nend\nx := f\nx = x + 1\n",
	"on key k:string\n    x := k\n    x = x + k\nend\n", "b := true and false\nb = b or true\n", "m := {a:1}\nx := m.a\nx = x + 1\n",
	"m := {a:1}\nm.a = 2\nm.b = 3\n", "x:any\nx = 1\ny := x.(num)\ny = y + 1\n", "a := [1 \"a\"]\nb := a\nb = b + a\n", "m := {a:1 b:\"s\"}\nn := m\nn = m\n",
	"x := len \"abc\"\nx = x + 1\n", "x := [1 2 3]\ny := x[0] == x[1]\ny = !y\n", "x := 1\nif x == 1\n    print x\nend\n",
	"x := 1\n\n// comment\nx = 2 // trailing\n",
	// strings: code points
	"s := \"aé😀b\"\nc := s[1]\nd := s[-1]\ne := s[1:3]\nf := s[:2]\ng := s[2:]\nx := \"\"\nfor ch := range s\n    x = x + ch + \"|\"\nend\nn := 0\nfor range s\n    n = n + 1\nend\n",
	"s := \"é\"\nt := s[0]\nu := s[0:1]\nv := s + s\nw := v[1]\n",
	// maps: order
	"m := {b:1 a:2}\nm[\"c\"] = 3\nm[\"b\"] = 9\nks := \"\"\nfor k := range m\n    ks = ks + k\nend\nv := m[\"c\"]\n",
	"m := {b:1 a:2}\nn := m\nn[\"z\"] = 0\nks := \"\"\nfor k := range m\n    ks = ks + k\nend\ne := m == n\n",
	"m := {a:[1 2]}\nx := m[\"a\"]\nx[0] = 9\ny := m[\"a\"][0]\n",
	"m := {a:1}\nx := m[\"zz\"]\nx = 1\n",
	// arrays: stores, aliases, repetition, slices
	"a := [1 2 3]\na[0] = 7\na[-1] = 9\nb := a\nb[1] = 8\nc := a[1:]\nc[0] = 0\nd := a + b\ne := a == b\n",
	"a := [1 2 3]\na[3] = 1\n", "a := [1 2 3]\na[-4] = 1\n", "a := [1 2 3]\na[0.5] = 1\n", "a := [1 2 3]\nx := a[0.5]\nx = 1\n", "a := [1 2 3]\nx := a[5]\nx = 1\n",
	"a := [1 2 3]\nx := a[2:1]\nx = a\n", "a := [1 2 3]\nx := a[:7]\nx = a\n",
	"a := [[1 2] [3]]\nb := a * 2\nb[0][0] = 9\nc := a[0][0]\nd := b[2][0]\n",
	"a := [1 2]\nb := a * 0\nc := a * 2.5\n", "a := [1 2]\nb := a * -1\n", "a := []\nb := a + []\nc := [] * 3\nd := b == c\n",
	"x := 7 / 2\ny := 7 % 3\nz := -7 % 3\nw := 1 / 0\n", "x := 5\ny := 0\nz := x % y\n", "x := 0 / 0\ny := x == x\n",
	// scoping
	"x := 10\nt := 0\nfor x := range 3\n    t = t + x\nend\nx = x + 1\n",
	"x := \"s\"\nt := 0\nfor x := range 3\n    t = t + x\nend\nx = x + \"!\"\n",
	"t := 0\nif true\n    x := 5\n    for x := range 2\n        t = t + x\n    end\n    t = t * 10 + x\nend\n",
	"t := 0\nfor i := range 2\n    for i := range 3\n        t = t + 1 + i\n    end\n    t = t + 100 * i\nend\n",
	"t := \"\"\nn := 0\nfor c := range \"ab\"\n    for c := range [1 2]\n        t = t + \"x\"\n        n = n + c\n    end\n    t = t + c\nend\n",
	"a := 1\nif true\n    b := 2\n    if true\n        c := 3\n        a = a + b + c\n    end\n    d := 4\n    a = a + b + d\nend\nif true\n    e := 5\n    a = a + e\nend\n",
	"t := 0\nwhile t < 3\n    u := t * 2\n    v := u + 1\n    t = t + 1\n    if v > 2\n        w := v\n        t = t + w - w\n    end\nend\n",
	"g := 0\nfor i := range 2\n    r := g + 1 + i\n    g := \"s\"\n    g = g + \"t\"\n    tn := r\n    tn = tn + 1\nend\n",
	"x := 1\nif true\n    x := 2\n    x = x + 1\n    if true\n        x := 3\n        x = x + 1\n    end\n    x = x + 10\nend\nx = x + 100\n",
	"t := 0\nfor i := range 3\n    for j := range 3\n        if j == 1\n            break\n        end\n        t = t + 10 * i + j\n    end\nend\n",
	"t := 0\ni := 0\nwhile true\n    i = i + 1\n    if i > 3\n        break\n    end\n    while true\n        t = t + i\n        break\n    end\nend\n",
	"t := 0\nfor i := range 1 10 3\n    t = t + i\nend\nfor i := range 3 -3 -2\n    t = t * 10 + i\nend\nfor i := range 0 1 0.25\n    t = t + i\nend\nfor range 3\n    t = t + 1\nend\n",
	"t := 0\nfor i := range 0 1 0\n    t = 1 + i\nend\n",
	"a := [1 2 3]\nt := 0\nfor e := range a\n    a[2] = 10\n    t = t + e\nend\nfor e := range a\n    a = [0]\n    t = t + e\nend\n",
	"m := {a:1 b:2}\nt := \"\"\nfor k := range m\n    t = t + k\n    m[\"c\"] = 3\nend\n",
	// every slice is a fresh array, also the whole-array slices
	"x := [1 2 3]\ny := x[:]\ny[0] = 9\nz := x[0:3]\nz[1] = 8\nu := x[0:]\nu[2] = 7\nv := x[:3]\nv[0] = 6\nw := x[-3:]\nw[0] = 5\n",
	"x := [[1] [2]]\ny := x[:]\ny[0] = [9]\nz := x[:]\nz[0][0] = 8\n",
	// constants of different types with the same printed form are different constants
	"n := 7\nx := \"7\"\ny := x + \"!\"\nm := n + 1\nb := true\nt := \"true\"\nu := t + \"?\"\nc := !b\nz := 0\ne := \"0\"\nf := e + e\ng := z + z\n",
	"x := \"7\"\nn := 7\nm := n * 2\ny := x + x\nk := 1\nl := \"1\"\nj := [1 \"1\" 1.0 \"1.0\"]\nq := j[0] == j[2]\nr := j[1] == j[3]\n",
	"n := 7\nx := \"7\"\nb := true\nt := \"true\"\nz := 0\ne := \"0\"\nf := 1.5\ng := \"1.5\"\n",
	"x := \"7\"\nn := 7\nt := \"true\"\nb := true\n",
	"k := \"\"\nn := 0\nfor c := range \"ab\"\n    k = k + c\nend\nx := \"0\"\ny := \"1\"\nfor e := range [5 6]\n    k = k + \"|\"\n    n = n + e\nend\nz := \"0\"\n",
	// concatenation with an empty operand is still a fresh array
	"a := [1 2]\nb := a + []\nb[0] = 9\nc := [] + a\nc[1] = 8\nz := [0]\ne := z[1:]\nd := e + a\nd[0] = 7\nacc := z[1:]\nrow := [1 2]\nfor i := range 2\n    acc = acc + row\n    acc[0] = acc[0] + 10 + i\nend\n",
	"acc := [0]\nfor i := range 1 3\n    acc = acc + [i*2]\nend\nw6 := acc + [6]\nw7 := acc + [7]\nw6[0] = -1\nsame := acc + acc[3:]\nsame[1] = 99\nw8 := w6 + [8]\nw9 := w6 + [9]\n",
	"g := 10\nr := 0\nif true\n    t := 1\n    t = t + 1\nend\nif true\n    g := g + 5\n    r = g\nend\nfor i := range 2\n    g := g * 2 + i\n    r = r + g\nend\n",
	// a block that declares nothing around a block that declares locals: the inner locals need slots of their own
	"total := 0\nfor i := range 3\n    if i >= 0\n        bonus := 10\n        total = total + i + bonus\n    end\nend\n",
	"r := 0\nwhile r < 1\n    if true\n        a := 5\n        r = 1 + a\n    end\nend\n",
	"t := 0\nfor range 2\n    if true\n        w := \"a\"\n        w = w + \"b\"\n        if true\n            v := 3\n            t = t + 1 + v\n        end\n    end\nend\n",
	"s := \"\"\nfor c := range \"ab\"\n    while true\n        if true\n            k := c + \"!\"\n            s = s + k\n        end\n        break\n    end\nend\n",
	// locals declared after an inner block ended; many locals on several levels
	"t := 0\nif true\n    a := 1\n    if true\n        b := 2\n        c := 3\n        t = t + b + c\n    end\n    d := 4\n    e := 5\n    f := 6\n    t = t + a + d + e + f\nend\n",
	"func f:num p:num\n    a := p + 1\n    if a > 0\n        b := a * 2\n        if b > 0\n            c := b * 2\n            a = a + c\n        end\n        d := a + b\n        e := d + 1\n        a = e\n    end\n    g := a + 1\n    h := g + 1\n    return h\nend\nr := f 1\nr = r + (f 2)\n",
}

func c16Programs(w *fw.Worker, visit func(src string, prog *pt.Prog)) {
	depth := 2
	if !w.Quick() {
		depth = 3
	}
	for d := 0; d <= depth; d++ {
		d := d
		bound := -1
		if d == 3 {
			bound = 5
		}
		fw.Explore(bound, func(c *fw.Ctx) {
			if w.Expired() {
				return
			}
			g := &c10gen{c: c, trace: true}
			body := g.block(d, c10ctx{})
			stmts := append(append([]pt.Stmt(nil), c16Prelude...), pt.InferDecl{Name: "g", X: pt.N(0)})
			stmts = append(stmts, body...)
			stmts = append(stmts, g.num("end", pt.V("g")))
			stmts = append(stmts, g.funcs...)
			p := &pt.Prog{Stmts: stmts}
			visit(pt.Source(p), p)
		}, func(*fw.Ctx) bool { return !w.Expired() })
	}
	// expression trees assigned to a global
	leaves := map[string][]pt.Expr{
		"num":    {pt.N(2), pt.N(0), pt.N(7.5), pt.V("nv"), pt.Group{X: pt.Bin("/", pt.N(1), pt.N(0))}},
		"string": {pt.S("a"), pt.S(""), pt.S("b€"), pt.V("sv")},
		"bool":   {pt.B(true), pt.B(false), pt.V("bv")},
		"[]num":  {pt.A(pt.N(1), pt.N(2)), pt.A(), pt.V("av")},
		"{}num":  {pt.M("a", pt.N(1)), pt.M("b", pt.N(2), "a", pt.N(1)), pt.V("mv")},
	}
	k := 2
	for _, t := range c01Types {
		for b := 0; b <= k; b++ {
			t, b := t, b
			g0 := &ExprGen{Leaves: leaves}
			if !g0.feasible(t, b) {
				continue
			}
			fw.Explore(-1, func(c *fw.Ctx) {
				if w.Expired() {
					return
				}
				g := &ExprGen{C: c, Leaves: leaves}
				e := g.Gen(t, b)
				used := map[string]bool{}
				VarsUsed(e, used)
				stmts := append(Prelude(used), pt.InferDecl{Name: "r", X: e}, pt.Assign{Target: pt.V("r"), X: pt.V("r")})
				for name := range used {
					if !strings.HasPrefix(name, "call:") {
						stmts = append(stmts, pt.Assign{Target: pt.V(name), X: pt.V(name)})
					}
				}
				p := &pt.Prog{Stmts: stmts}
				visit(pt.Source(p), p)
			}, func(*fw.Ctx) bool { return !w.Expired() })
		}
	}
	for _, src := range c16Fixed {
		src = c16UseGlobals(src)
		prog, errs, _ := run.Parse(src)
		if prog == nil {
			// see the same case in c06.go: left out and reported as incomplete coverage, not as a verdict about the VM
			w.Count("fixed-program-rejected", 1)
			w.NotExhaustive("a hand-written program is not accepted by this tree's parser and was left out: " + fw.FirstLine(fmt.Sprint(errs)) + " in " + fw.Trunc(src, 60))
			continue
		}
		p, err := astconv.Prog(prog)
		if err != nil {
			continue
		}
		visit(src, p)
	}
}

var unusedRe = regexp.MustCompile(`^line \d+ column 1: "(\w+)" declared but not used$`)

// c16UseGlobals appends a self-assignment for every global the parser reports as unused (the fixed programs are about the values
// the globals end with; the parser insists that each is read somewhere).
func c16UseGlobals(src string) string {
	prog, errs, _ := run.Parse(src)
	if prog != nil || errs == nil {
		return src
	}
	var add []string
	for _, l := range strings.Split(errs.Error(), "\n") {
		m := unusedRe.FindStringSubmatch(strings.TrimSpace(l))
		if m == nil {
			return src // another kind of error: reported by the caller
		}
		add = append(add, m[1]+" = "+m[1]+"\n")
	}
	return src + strings.Join(add, "")
}

func runBytecode(w *fw.Worker, id string) {
	n := 0
	c16Programs(w, func(src string, prog *pt.Prog) {
		n++
		sample := n%997 == 0
		w.Case(src, func() *fw.Violation {
			if sample {
				w.Sample(src)
			}
			if id == "C16" {
				return checkC16(w, src)
			}
			return checkC17(w, src)
		})
	})
	if id == "C17" {
		runC17Extra(w)
	}
}

// ---- running both engines --------------------------------------------------------------------

type bcRun struct {
	parseErr   string
	compileErr string
	gopanic    string
	bc         *bytecode.Bytecode
	comp       *bytecode.Compiler
	vmErr      error
	vmClass    string
	globals    map[string]string
	sp         int
	scopeDepth int
	stmtSpans  []string // top-level statements that emitted no code
}

func vmClass(err error) string {
	switch {
	case err == nil:
		return "ok"
	case errors.Is(err, bytecode.ErrDivideByZero):
		return "div0"
	case errors.Is(err, bytecode.ErrBounds):
		return "panic:bounds"
	case errors.Is(err, bytecode.ErrIndexValue):
		return "panic:index-value"
	case errors.Is(err, bytecode.ErrSlice):
		return "panic:slice"
	case errors.Is(err, bytecode.ErrMapKey):
		return "panic:map-key"
	case errors.Is(err, bytecode.ErrBadRepetition):
		return "panic:repetition"
	case strings.Contains(err.Error(), "bad range value"):
		return "panic:range"
	case errors.Is(err, bytecode.ErrStackOverflow):
		return "stack-overflow"
	case errors.Is(err, bytecode.ErrInternal):
		return "internal"
	case errors.Is(err, bytecode.ErrPanic):
		return "panic:other"
	}
	return "unknown-error"
}

func compileAndRun(src string, runVM bool) (r bcRun) {
	prog, errs, gp := run.Parse(src)
	if gp != "" {
		r.gopanic = "parser: " + gp
		return
	}
	if prog == nil {
		r.parseErr = errs.Error()
		return
	}
	defer func() {
		if rec := recover(); rec != nil {
			r.gopanic = fmt.Sprint(rec)
		}
	}()
	comp := bytecode.NewCompiler()
	r.comp = comp
	if err := comp.Compile(prog); err != nil {
		r.compileErr = err.Error()
		return
	}
	// a second compiler instance, statement by statement (exactly the loop of compileProgram), to see which
	// statements emit nothing
	tr := bytecode.NewCompiler()
	before := 0
	for _, st := range prog.Statements {
		if err := tr.Compile(st); err != nil {
			break
		}
		after := len(tr.Bytecode().Instructions)
		if after == before {
			if _, empty := st.(*parser.EmptyStmt); !empty {
				r.stmtSpans = append(r.stmtSpans, fmt.Sprintf("%T", st))
			}
		}
		before = after
	}
	r.bc = comp.Bytecode()
	r.scopeDepth = bytecode.VerifScopeDepth(comp)
	if !runVM {
		return
	}
	vm := bytecode.NewVM(r.bc)
	r.vmErr = vm.Run()
	r.vmClass = vmClass(r.vmErr)
	r.globals = bytecode.VerifGlobals(comp, vm)
	r.sp = bytecode.VerifSP(vm)
	return
}

var goMsgDigits = regexp.MustCompile(`[0-9]+`)

func topLevelNames(src string) []string {
	prog, _, _ := run.Parse(src)
	if prog == nil {
		return nil
	}
	var names []string
	for _, st := range prog.Statements {
		switch d := st.(type) {
		case *parser.InferredDeclStmt:
			names = append(names, d.Decl.Var.Name)
		case *parser.TypedDeclStmt:
			names = append(names, d.Decl.Var.Name)
		}
	}
	sort.Strings(names)
	return names
}

func checkC16(w *fw.Worker, src string) *fw.Violation {
	in := DiffInput{Src: src}
	viol := func(sig, what, exp, obs string) *fw.Violation {
		return &fw.Violation{Sub: "bytecode", Signature: sig, What: what, Input: in, Expected: exp, Observed: obs}
	}
	count := func(k string, n int64) {
		if w != nil {
			w.Count(k, n)
		}
	}
	r := compileAndRun(src, true)
	switch {
	case r.parseErr != "":
		count("parse-rejected", 1)
		return nil
	case r.compileErr != "":
		count("rejected-at-compile-time", 1)
		return nil
	case r.gopanic != "":
		return nil // C17 reports host panics
	}
	count("compiled", 1)
	if w != nil {
		w.Nontrivial()
	}
	if len(r.stmtSpans) > 0 {
		return viol("silent-drop:"+r.stmtSpans[0], "a statement was accepted by the compiler but no code was emitted for it", "code for every statement, or a compile error", strings.Join(r.stmtSpans, ", "))
	}
	// evaluator: globals in repr form
	names := topLevelNames(src)
	var sb strings.Builder
	sb.WriteString(src)
	for _, n := range names {
		fmt.Fprintf(&sb, "print \"G:%s\" (repr %s)\n", n, n)
	}
	eo := run.Run(sb.String(), run.Opts{Budget: 100000})
	if w != nil {
		w.Outcome("eval:" + eo.Class + " vm:" + r.vmClass)
	}
	if eo.Class == "parse-error" || eo.Class == "gopanic" || eo.Class == "budget" {
		count("evaluator-skip:"+eo.Class, 1)
		return nil
	}
	mayDivZero := strings.ContainsAny(src, "/%")
	if eo.Class != "ok" {
		if r.vmClass == eo.Class || (r.vmClass == "div0" && mayDivZero) {
			return nil
		}
		return viol("error-class:"+eo.Class+"->"+r.vmClass, "the evaluator fails with a run-time error, the VM does not fail correspondingly", eo.Class+" "+eo.Err, r.vmClass+" "+fmt.Sprint(r.vmErr))
	}
	if r.vmClass != "ok" {
		if r.vmClass == "div0" && mayDivZero {
			return nil
		}
		return viol("error-class:ok->"+r.vmClass, "the VM fails where the evaluator completes", "ok", r.vmClass+" "+fmt.Sprint(r.vmErr))
	}
	want := map[string]string{}
	for _, e := range eo.Trace {
		if strings.HasPrefix(e, "print:G:") {
			rest := strings.TrimSuffix(e[8:], "\n")
			if i := strings.Index(rest, " "); i > 0 {
				want[rest[:i]] = rest[i+1:]
			}
		}
	}
	for _, n := range names {
		count("globals-compared", 1)
		got, ok := r.globals[n]
		if !ok {
			return viol("global-missing", "a global the evaluator defines has no VM slot", n+" = "+want[n], "no symbol")
		}
		if got != want[n] {
			return viol(c16Classify(src, want[n], got), "a global variable ends with a different value on the VM", n+" = "+want[n], n+" = "+got)
		}
	}
	return nil
}

// c16Classify names the narrow class of a value difference.
func c16Classify(src, want, got string) string {
	nonASCII := false
	for _, r := range src {
		if r > 127 {
			nonASCII = true
		}
	}
	if loopVarShadows(src) {
		return "for-loopvar-shadows-outer"
	}
	switch {
	case nonASCII && strings.Contains(got, "\\x") || nonASCII && strings.ContainsRune(got, '\uFFFD'):
		return "string-bytes"
	case strings.Contains(got, "<order has"):
		return "map-order-table-mismatch"
	case mapInsertByIndex(src) && len(got) < len(want) && isSubsequence(got, want):
		// the same defect seen through iteration: the inserted key is in the table but not in the order, a range over the map skips it
		return "map-order-table-mismatch"
	case sortedChars(want) == sortedChars(got) && strings.Contains(want, "{"):
		return "map-order"
	}
	return "global-value-differs"
}

var (
	mapStoreRe = regexp.MustCompile(`(?m)^\s*\w+\["(\w+)"\] = `)
	mapKeyRe   = regexp.MustCompile(`[{ ](\w+):`)
)

// mapInsertByIndex reports whether the program stores through m["k"] with a key that no map literal of the program has.
func mapInsertByIndex(src string) bool {
	lit := map[string]bool{}
	for _, m := range mapKeyRe.FindAllStringSubmatch(src, -1) {
		lit[m[1]] = true
	}
	for _, m := range mapStoreRe.FindAllStringSubmatch(src, -1) {
		if !lit[m[1]] {
			return true
		}
	}
	return false
}

func isSubsequence(a, b string) bool {
	i := 0
	for j := 0; j < len(b) && i < len(a); j++ {
		if a[i] == b[j] {
			i++
		}
	}
	return i == len(a)
}

var forVarRe = regexp.MustCompile(`(?m)^\s*for (\w+) := range`)

// loopVarShadows reports whether a loop variable has the name of a variable declared outside that loop header.
func loopVarShadows(src string) bool {
	for _, m := range forVarRe.FindAllStringSubmatch(src, -1) {
		name := m[1]
		decl := regexp.MustCompile(`(?m)^\s*` + name + `(:=| :=|:)`)
		forDecl := regexp.MustCompile(`(?m)^\s*for ` + name + ` := range`)
		if decl.MatchString(src) || len(forDecl.FindAllString(src, -1)) > 1 {
			return true
		}
	}
	return false
}

func sortedChars(s string) string {
	r := []rune(s)
	sort.Slice(r, func(i, j int) bool { return r[i] < r[j] })
	return string(r)
}

// ---- C17: static verifier ----------------------------------------------------------------------

type opInfo struct {
	pops, pushes int
	operand      bool
}

var opTable = map[bytecode.Opcode]opInfo{
	bytecode.OpConstant: {0, 1, true}, bytecode.OpGetGlobal: {0, 1, true}, bytecode.OpSetGlobal: {1, 0, true}, bytecode.OpGetLocal: {0, 1, true}, bytecode.OpSetLocal: {1, 0, true},
	bytecode.OpDrop: {0, 0, true}, bytecode.OpTrue: {0, 1, false}, bytecode.OpFalse: {0, 1, false}, bytecode.OpNone: {0, 1, false}, bytecode.OpNot: {1, 1, false}, bytecode.OpMinus: {1, 1, false},
	bytecode.OpAdd: {2, 1, false}, bytecode.OpSubtract: {2, 1, false}, bytecode.OpMultiply: {2, 1, false}, bytecode.OpDivide: {2, 1, false}, bytecode.OpModulo: {2, 1, false},
	bytecode.OpEqual: {2, 1, false}, bytecode.OpNotEqual: {2, 1, false}, bytecode.OpNumLessThan: {2, 1, false}, bytecode.OpNumLessThanEqual: {2, 1, false}, bytecode.OpNumGreaterThan: {2, 1, false},
	bytecode.OpNumGreaterThanEqual: {2, 1, false}, bytecode.OpStringLessThan: {2, 1, false}, bytecode.OpStringLessThanEqual: {2, 1, false}, bytecode.OpStringGreaterThan: {2, 1, false},
	bytecode.OpStringGreaterThanEqual: {2, 1, false}, bytecode.OpStringConcatenate: {2, 1, false}, bytecode.OpArrayConcatenate: {2, 1, false}, bytecode.OpArrayRepeat: {2, 1, false},
	bytecode.OpIndex: {2, 1, false}, bytecode.OpSetIndex: {3, 0, false}, bytecode.OpSlice: {3, 1, false}, bytecode.OpArray: {0, 1, true}, bytecode.OpMap: {0, 1, true},
	bytecode.OpJump: {0, 0, true}, bytecode.OpJumpOnFalse: {1, 0, true}, bytecode.OpStepRange: {3, 3, true}, bytecode.OpIterRange: {2, 2, true},
}

// verifyBytecode explores the control-flow graph over (ip, height); returns violation text and the number of states/edges.
func verifyBytecode(bc *bytecode.Bytecode) (sig, msg string, states, edges int) {
	ins := bc.Instructions
	n := len(ins)
	// instruction boundaries by linear decoding
	boundary := map[int]bool{}
	for ip := 0; ip < n; {
		boundary[ip] = true
		info, ok := opTable[bytecode.Opcode(ins[ip])]
		if !ok {
			return "unknown-opcode", fmt.Sprintf("byte %d at %d is not an opcode", ins[ip], ip), 0, 0
		}
		if info.operand {
			if ip+2 >= n+0 && ip+3 > n {
				return "truncated-instruction", fmt.Sprintf("operand of instruction at %d runs past the end", ip), 0, 0
			}
			ip += 3
		} else {
			ip++
		}
	}
	boundary[n] = true
	base := bc.LocalCount
	height := map[int]int{}
	type st struct{ ip, h int }
	work := []st{{0, base}}
	fail := func(s, m string) (string, string, int, int) { return s, m, len(height), edges }
	for len(work) > 0 {
		s := work[len(work)-1]
		work = work[:len(work)-1]
		if h, seen := height[s.ip]; seen {
			if h != s.h {
				return fail("height-mismatch", fmt.Sprintf("instruction %d is reached with stack heights %d and %d", s.ip, h-base, s.h-base))
			}
			continue
		}
		height[s.ip] = s.h
		if s.ip == n {
			if s.h != base {
				return fail("stack-not-empty-at-end", fmt.Sprintf("program ends with %d values on the operand stack", s.h-base))
			}
			continue
		}
		op := bytecode.Opcode(ins[s.ip])
		info := opTable[op]
		operand := 0
		next := s.ip + 1
		if info.operand {
			operand = int(bytecode.ReadUint16(ins[s.ip+1:]))
			next = s.ip + 3
		}
		h := s.h
		pop := func(k int) bool { h -= k; return h >= base }
		switch op {
		case bytecode.OpConstant:
			if operand >= len(bc.Constants) {
				return fail("constant-out-of-range", fmt.Sprintf("OpConstant %d at %d, %d constants", operand, s.ip, len(bc.Constants)))
			}
		case bytecode.OpGetGlobal, bytecode.OpSetGlobal:
			if operand >= bc.GlobalCount {
				return fail("global-out-of-range", fmt.Sprintf("global %d at %d, %d globals", operand, s.ip, bc.GlobalCount))
			}
		case bytecode.OpGetLocal, bytecode.OpSetLocal:
			if operand >= bc.LocalCount {
				return fail("local-out-of-range", fmt.Sprintf("local %d at %d, %d locals", operand, s.ip, bc.LocalCount))
			}
		}
		succ := func(ip, hh int) {
			edges++
			work = append(work, st{ip, hh})
		}
		switch op {
		case bytecode.OpDrop:
			if !pop(operand) {
				return fail("stack-underflow", fmt.Sprintf("OpDrop %d at %d underflows", operand, s.ip))
			}
			succ(next, h)
		case bytecode.OpArray:
			if !pop(operand) {
				return fail("stack-underflow", fmt.Sprintf("OpArray %d at %d underflows", operand, s.ip))
			}
			succ(next, h+1)
		case bytecode.OpMap:
			if !pop(2 * operand) {
				return fail("stack-underflow", fmt.Sprintf("OpMap %d at %d underflows", operand, s.ip))
			}
			succ(next, h+1)
		case bytecode.OpJump:
			if !boundary[operand] {
				return fail("jump-target", fmt.Sprintf("OpJump at %d targets %d, not an instruction boundary inside the program", s.ip, operand))
			}
			succ(operand, h)
		case bytecode.OpJumpOnFalse:
			if !pop(1) {
				return fail("stack-underflow", fmt.Sprintf("OpJumpOnFalse at %d underflows", s.ip))
			}
			if !boundary[operand] {
				return fail("jump-target", fmt.Sprintf("OpJumpOnFalse at %d targets %d, not an instruction boundary inside the program", s.ip, operand))
			}
			succ(next, h)
			succ(operand, h)
		case bytecode.OpStepRange, bytecode.OpIterRange:
			// range state stays; pushes the bool, and the loop value only on the continue path; must be followed by OpJumpOnFalse
			if !pop(info.pops) {
				return fail("stack-underflow", fmt.Sprintf("range opcode at %d underflows", s.ip))
			}
			h += info.pushes
			if next >= n || bytecode.Opcode(ins[next]) != bytecode.OpJumpOnFalse {
				return fail("range-without-jump", fmt.Sprintf("range opcode at %d is not followed by OpJumpOnFalse", s.ip))
			}
			target := int(bytecode.ReadUint16(ins[next+1:]))
			if !boundary[target] {
				return fail("jump-target", fmt.Sprintf("OpJumpOnFalse at %d targets %d", next, target))
			}
			height[next] = h + 1 + operand // not meaningful as a single height; mark visited
			edges += 2
			work = append(work, st{next + 3, h + operand}, st{target, h})
		default:
			if !pop(info.pops) {
				return fail("stack-underflow", fmt.Sprintf("opcode %d at %d underflows", op, s.ip))
			}
			h += info.pushes // exceeding StackSize is caught by the VM's push (ErrStackOverflow), not a well-formedness issue
			succ(next, h)
		}
	}
	return "", "", len(height), edges
}

func checkC17(w *fw.Worker, src string) *fw.Violation {
	in := DiffInput{Src: src}
	viol := func(sig, what, exp, obs string) *fw.Violation {
		return &fw.Violation{Sub: "bytecode", Signature: sig, What: what, Input: in, Expected: exp, Observed: obs}
	}
	r := compileAndRun(src, false)
	if r.parseErr != "" || r.compileErr != "" {
		return nil
	}
	if r.gopanic != "" {
		return viol("compile-gopanic:"+fw.Trunc(goMsgDigits.ReplaceAllString(r.gopanic, "#"), 60), "the compiler panicked", "bytecode or an error", r.gopanic)
	}
	if w != nil {
		w.Nontrivial()
		w.Count("programs-verified", 1)
	}
	if r.scopeDepth != 0 {
		return viol("scope-not-closed", "the compiler finished with open scopes", "0", fmt.Sprint(r.scopeDepth))
	}
	if sig, msg, states, edges := verifyBytecode(r.bc); sig != "" {
		return viol("static:"+sig, "emitted bytecode is not well formed: "+msg, "well-formed bytecode", r.bc.Instructions.String())
	} else if w != nil {
		w.Count("states", int64(states))
		w.Count("transitions", int64(edges))
		w.Count("traces_validated_against_impl", 1)
	}
	rr := compileAndRun(src, true)
	if loopVarShadows(src) {
		// two variables that are alive at the same time must not share a slot: for a loop variable that shadows an
		// outer variable this shows as the outer variable being overwritten (compared with the evaluator), or - when
		// the two have different types - as a type confusion that panics the VM
		if v := checkC16(nil, src); (v != nil && v.Signature == "for-loopvar-shadows-outer") || rr.gopanic != "" {
			obs := rr.gopanic
			if v != nil {
				obs = v.Observed
			}
			return viol("slot-shared:for-loopvar-shadows-outer", "a loop variable shares the storage slot of the live outer variable it shadows", "distinct slots", obs)
		}
	}
	if rr.gopanic != "" {
		return viol("vm-gopanic:"+fw.Trunc(goMsgDigits.ReplaceAllString(rr.gopanic, "#"), 60), "the VM crashed the host", "completion or a run-time error", rr.gopanic)
	}
	if w != nil {
		w.Outcome("vm:" + rr.vmClass)
	}
	if rr.vmClass == "internal" || rr.vmClass == "unknown-error" {
		return viol("vm-internal-error", "the VM ended with an internal error", "completion or a user error", fmt.Sprint(rr.vmErr))
	}
	if rr.vmClass == "ok" && rr.sp != rr.bc.LocalCount {
		return viol("sp-not-restored", "the operand stack is not empty when the program ends", fmt.Sprint("sp = LocalCount = ", rr.bc.LocalCount), fmt.Sprint("sp = ", rr.sp))
	}
	return nil
}

// ---- C17 extras: scaled programs and the symbol table ------------------------------------------

func runC17Extra(w *fw.Worker) {
	sizes := []int{65535, 65536, 65537}
	scaled := func(name string, gen func(n int) string) {
		for _, n := range sizes {
			n := n
			key := fmt.Sprintf("scaled:%s:%d", name, n)
			w.Case(key, func() *fw.Violation {
				src := gen(n)
				v := checkC17(w, src)
				if v == nil && name != "array-literal" {
					// operand truncation is invisible in the bytecode alone: compare the globals with the evaluator's
					// (not for the huge literal: the VM's fixed operand stack reports a stack overflow, a resource limit)
					v = checkC16(nil, src)
				}
				if v != nil {
					v.Input = map[string]any{"family": name, "size": n, "src_head": fw.Trunc(src, 200)}
					v.Sub = "scaled"
					v.Signature = "operand-overflow:" + name + ":" + v.Signature
					v.Observed = fw.Trunc(v.Observed, 400)
				}
				return v
			})
		}
	}
	scaled("constants", func(n int) string {
		var sb strings.Builder
		sb.WriteString("x := 0\n")
		for i := 0; i < n; i++ {
			sb.WriteString("x = x + 1\n")
		}
		sb.WriteString("y := 12345\ny = y + 1\n")
		return sb.String()
	})
	scaled("globals", func(n int) string {
		var sb strings.Builder
		for i := 0; i < n; i++ {
			fmt.Fprintf(&sb, "v%d := %d\nv%d = v%d\n", i, i%7, i, i)
		}
		return sb.String()
	})
	scaled("jump-distance", func(n int) string {
		var sb strings.Builder
		sb.WriteString("x := 0\nif x == 1\n")
		for i := 0; i < n/9; i++ {
			sb.WriteString("    x = x + 1\n")
		}
		sb.WriteString("end\nx = x + 5\n")
		return sb.String()
	})
	scaled("array-literal", func(n int) string {
		return "a := [" + strings.Repeat("1 ", n) + "]\na = a\n"
	})
	for _, depth := range []int{1, 10, 40, 70} {
		depth := depth
		w.Case(fmt.Sprint("nesting:", depth), func() *fw.Violation {
			var sb strings.Builder
			sb.WriteString("t := 0\n")
			for i := 0; i < depth; i++ {
				ind := strings.Repeat("    ", i)
				fmt.Fprintf(&sb, "%sif true\n%s    l%d := %d\n%s    t = t + l%d\n", ind, ind, i, i, ind, i)
			}
			for i := depth - 1; i >= 0; i-- {
				sb.WriteString(strings.Repeat("    ", i) + "end\n")
			}
			return checkC17(w, sb.String())
		})
	}
	// symbol table: BFS over operation sequences (every worker explores the full space; it is small)
	if w.Shard != 0 {
		return
	}
	depth := 7
	if !w.Quick() {
		depth = 9
	}
	ops := []string{"push", "pop", "def x", "def y", "def z", "res x", "res y", "res z"}
	seen := map[string]bool{}
	frontier := [][]string{nil}
	for d := 0; d <= depth; d++ {
		var next [][]string
		for _, h := range frontier {
			w.Progress()
			key, v := symtabRun(h)
			if v != nil {
				v.Input = h
				w.RunCase(fmt.Sprint("symtab", h), func() *fw.Violation { return checkSymtab(h) })
				continue
			}
			w.Count("symtab-transitions", 1)
			if seen[key] {
				continue
			}
			seen[key] = true
			w.Count("symtab-states", 1)
			w.Count("states", 1)
			if d == depth {
				continue
			}
			for _, op := range ops {
				next = append(next, append(append([]string(nil), h...), op))
			}
		}
		frontier = next
	}
}

func checkSymtab(ops []string) *fw.Violation {
	_, v := symtabRun(ops)
	if v != nil {
		v.Input = ops
	}
	return v
}

// symtabRun replays an operation history on the real SymbolTable next to a reference model and checks the invariants.
func symtabRun(ops []string) (key string, v *fw.Violation) {
	viol := func(sig, what, exp, obs string) (string, *fw.Violation) {
		return "", &fw.Violation{Sub: "symtab", Signature: "symtab:" + sig, What: what, Expected: exp, Observed: obs}
	}
	type scope struct {
		names  map[string]int // name -> slot
		global bool
	}
	root := bytecode.NewSymbolTable()
	cur := root
	model := []*scope{{names: map[string]int{}, global: true}}
	maxSlot := -1 // highest local slot ever handed out
	handed := map[int]bool{}
	for _, op := range ops {
		f := strings.Fields(op)
		switch f[0] {
		case "push":
			cur = cur.Push()
			model = append(model, &scope{names: map[string]int{}})
		case "pop":
			cur = cur.Pop()
			if len(model) > 1 {
				model = model[:len(model)-1]
			}
		case "def":
			sym := cur.Define(f[1])
			top := model[len(model)-1]
			wantScope := bytecode.LocalScope
			if top.global {
				wantScope = bytecode.GlobalScope
			}
			if sym.Scope != wantScope || sym.Name != f[1] {
				return viol("define-scope", "Define returned a symbol with the wrong scope or name", fmt.Sprint(f[1], " ", wantScope), fmt.Sprint(sym))
			}
			if old, ok := top.names[f[1]]; ok {
				if old != sym.Index {
					return viol("redefine-moves-slot", "defining an existing name in the same scope changed its slot", fmt.Sprint(old), fmt.Sprint(sym.Index))
				}
			} else {
				top.names[f[1]] = sym.Index
				if !top.global {
					handed[sym.Index] = true
					if sym.Index > maxSlot {
						maxSlot = sym.Index
					}
				}
			}
		case "res":
			sym, ok := cur.Resolve(f[1])
			want, found := -1, false
			wantGlobal := false
			for i := len(model) - 1; i >= 0; i-- {
				if s, ok2 := model[i].names[f[1]]; ok2 {
					want, found, wantGlobal = s, true, model[i].global
					break
				}
			}
			if ok != found || (found && (sym.Index != want || (sym.Scope == bytecode.GlobalScope) != wantGlobal)) {
				return viol("resolve", "Resolve does not return the innermost definition", fmt.Sprint(found, " slot ", want, " global ", wantGlobal), fmt.Sprint(ok, " ", sym))
			}
		}
		// invariant: locals visible from the current table (all live at the same time) have pairwise distinct slots
		_, _, _, syms := bytecode.VerifSymbols(cur)
		slots := map[int]string{}
		// all live locals = every local of every open scope (shadowed ones are still alive)
		for _, sc := range model {
			if sc.global {
				continue
			}
			for name, slot := range sc.names {
				if other, dup := slots[slot]; dup {
					return viol("slot-shared", "two local variables that are alive at the same time share a storage slot", "distinct slots", fmt.Sprintf("%s and %s both in slot %d after %v", other, name, slot, ops))
				}
				slots[slot] = name
			}
		}
		_ = syms
	}
	// canonical state: the chain of (index, nestedMaxIndex, own symbols), read without side effects
	var sb strings.Builder
	for s := cur; s != nil; s = bytecode.VerifOuter(s) {
		idx, nm, g, syms := bytecode.VerifSymbols(s)
		fmt.Fprintf(&sb, "[%d %d %v", idx, nm, g)
		for _, sy := range syms {
			if sy.Depth == 0 {
				fmt.Fprintf(&sb, " %s=%d", sy.Name, sy.Index)
			}
		}
		sb.WriteString("]")
	}
	// after closing every scope, every slot handed out is below the root's high-water mark
	t := cur
	for i := len(model); i > 1; i-- {
		t = t.Pop()
	}
	_, nested, isGlobal, _ := bytecode.VerifSymbols(t)
	if !isGlobal {
		return viol("pop-root", "popping all scopes does not return to the global table", "global", "nested")
	}
	if maxSlot >= nested {
		return viol("high-water-mark", "a local slot that was handed out is not covered by the root's nestedMaxIndex (LocalCount)", fmt.Sprint("nestedMaxIndex > ", maxSlot), fmt.Sprint(nested))
	}
	return sb.String(), nil
}

var _ = ref.Check
