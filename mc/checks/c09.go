package checks

import (
	"encoding/json"
	"fmt"
	"time"

	"verif/mc/fw"
	"verif/mc/pt"
)

// C09 — basic values are copied, composites are shared.

func init() {
	fw.Register(&fw.Check{
		ID:    "C09",
		Level: "exploration",
		Rule: "all alias histories of length <= 3 (quick) / 4 (thorough): value kind in {num, string, bool, []num, {}num, [][]num, any(num), any([]num)}; each step either creates an alias of an " +
			"existing name (inferred/typed declaration + assignment, parameter and return of a function, array-literal element, element store, map-literal value, field/index store, any wrap, " +
			"loop variable, slice, concatenation, repetition, and - for bool/string - the built-in err/errmsg in both directions) or updates through a name (reassign, element/field store, " +
			"del, a conversion built-in that sets/resets err); every live name is printed after every step. Compared with the reference interpreter whose basic values are immutable and " +
			"whose composites are references. Non-trivial = at least one alias creation followed by an update.",
		Assumptions: []string{"assignment targets are effect-free (the relative evaluation order of target and value is not specified)"},
		TrustedBase: []string{"reference interpreter (cells of immutable basic values; arrays/maps as references; deep copy only for repetition)"},
		Run:         runC09,
		Replay: func(sub string, in json.RawMessage) *fw.Violation {
			var d DiffInput
			json.Unmarshal(in, &d)
			return replayDiff(sub, d)
		},
		DeadlineQuick: 4 * time.Minute, DeadlineThorough: 25 * time.Minute,
		Vacuity: func(m *fw.Result) string {
			if m.Nontrivial < 1000 {
				return fmt.Sprint("too few non-trivial histories: ", m.Nontrivial)
			}
			return ""
		},
	})
}

type c9kind struct {
	name   string
	t      *pt.Type
	v1, v2 pt.Expr // two distinct values
	elem   pt.Expr // value to store into an element (composites)
}

var c9kinds = []c9kind{
	{"num", pt.TNum, pt.N(1), pt.N(2), nil},
	{"string", pt.TStr, pt.S("p"), pt.S("q"), nil},
	{"bool", pt.TBool, pt.B(false), pt.B(true), nil},
	{"[]num", tNumArr, pt.A(pt.N(1), pt.N(2)), pt.A(pt.N(7)), pt.N(9)},
	{"{}num", tNumMap, pt.M("a", pt.N(1)), pt.M("b", pt.N(7)), pt.N(9)},
	{"[][]num", pt.ArrOf(tNumArr), pt.A(pt.A(pt.N(1)), pt.A(pt.N(2))), pt.A(pt.A(pt.N(7))), pt.A(pt.N(9))},
	{"any(num)", pt.TAny, pt.N(1), pt.N(2), nil},
	{"any([]num)", pt.TAny, pt.A(pt.N(1), pt.N(2)), pt.A(pt.N(7)), nil},
}

// a c9 history is built step by step; names holds the live observable expressions.
type c9prog struct {
	kind    c9kind
	stmts   []pt.Stmt
	funcs   map[string]pt.Stmt
	obs     []pt.Expr // expressions to print after each step
	vars    []string  // variables of the kind's type that can be aliased / reassigned
	n       int
	created int
	updated int
	actions []string // names of the steps taken
}

func (p *c9prog) fresh(prefix string) string {
	p.n++
	return fmt.Sprintf("%s%d", prefix, p.n)
}

func (p *c9prog) observe() {
	args := []pt.Expr{pt.S("obs")}
	args = append(args, p.obs...)
	args = append(args, pt.V("err"), pt.V("errmsg"))
	p.stmts = append(p.stmts, pt.CallStmt{C: pt.Call{Name: "print", Args: args}})
}

func (p *c9prog) declare(name string, x pt.Expr) {
	if p.kind.t.K == pt.Any {
		p.stmts = append(p.stmts, pt.TypedDecl{Name: name, T: pt.TAny}, pt.Assign{Target: pt.V(name), X: x})
	} else {
		p.stmts = append(p.stmts, pt.InferDecl{Name: name, X: x})
	}
	p.vars = append(p.vars, name)
	p.obs = append(p.obs, pt.V(name))
}

func (p *c9prog) isComposite() bool { return p.kind.elem != nil }

// step applies choice-driven step; returns false if no step applies.
func (p *c9prog) step(c *fw.Ctx) {
	k := p.kind
	src := pt.V(p.vars[c.Choose(len(p.vars), "src")])
	type action struct {
		name string
		do   func()
	}
	var acts []action
	add := func(name string, do func()) { acts = append(acts, action{name, do}) }
	T := k.t
	// ---- alias creation
	add("infer-decl", func() {
		if T.K == pt.Any {
			n := p.fresh("b")
			p.stmts = append(p.stmts, pt.InferDecl{Name: n, X: src})
			p.vars, p.obs = append(p.vars, n), append(p.obs, pt.V(n))
		} else {
			p.declare(p.fresh("b"), src)
		}
		p.created++
	})
	add("typed-decl-assign", func() {
		n := p.fresh("b")
		p.stmts = append(p.stmts, pt.TypedDecl{Name: n, T: T}, pt.Assign{Target: pt.V(n), X: src})
		p.vars, p.obs = append(p.vars, n), append(p.obs, pt.V(n))
		p.created++
	})
	add("assign-existing", func() {
		dst := p.vars[c.Choose(len(p.vars), "dst")]
		p.stmts = append(p.stmts, pt.Assign{Target: pt.V(dst), X: src})
		p.created++
	})
	add("func-identity", func() {
		p.funcs["id"] = pt.Func{Name: "id", Ret: T, Params: []pt.Param{{Name: "x", T: T}}, Body: []pt.Stmt{pt.Return{X: pt.V("x")}}}
		n := p.fresh("b")
		p.stmts = append(p.stmts, pt.InferDecl{Name: n, X: pt.C("id", src)})
		p.vars, p.obs = append(p.vars, n), append(p.obs, pt.V(n))
		p.created++
	})
	add("func-param-reassign", func() {
		p.funcs["re"] = pt.Func{Name: "re", Params: []pt.Param{{Name: "x", T: T}}, Body: []pt.Stmt{pt.Assign{Target: pt.V("x"), X: k.v2}, pt.Print(pt.S("in"), pt.V("x"))}}
		p.stmts = append(p.stmts, pt.CallStmt{C: pt.C("re", src)})
		p.created++
		p.updated++
	})
	add("array-literal-element", func() {
		n := p.fresh("arr")
		p.stmts = append(p.stmts, pt.InferDecl{Name: n, X: pt.A(src)})
		p.obs = append(p.obs, pt.V(n))
		p.created++
	})
	add("array-element-store", func() {
		n := p.fresh("arr")
		p.stmts = append(p.stmts, pt.InferDecl{Name: n, X: pt.A(k.v2)}, pt.Assign{Target: pt.Index{X: pt.V(n), I: pt.N(0)}, X: src})
		p.obs = append(p.obs, pt.V(n))
		p.created++
	})
	add("map-literal-value", func() {
		n := p.fresh("mp")
		p.stmts = append(p.stmts, pt.InferDecl{Name: n, X: pt.M("k", src)})
		p.obs = append(p.obs, pt.V(n))
		p.created++
	})
	add("map-field-store", func() {
		n := p.fresh("mp")
		p.stmts = append(p.stmts, pt.InferDecl{Name: n, X: pt.M("k", k.v2)}, pt.Assign{Target: pt.Dot{X: pt.V(n), Key: "k"}, X: src},
			pt.Assign{Target: pt.Index{X: pt.V(n), I: pt.S("j")}, X: src})
		p.obs = append(p.obs, pt.V(n))
		p.created++
	})
	add("read-from-container", func() {
		n, b := p.fresh("arr"), p.fresh("b")
		p.stmts = append(p.stmts, pt.InferDecl{Name: n, X: pt.A(src)})
		p.declare(b, pt.Index{X: pt.V(n), I: pt.N(0)})
		p.obs = append(p.obs, pt.V(n))
		p.created++
	})
	add("repeat-wrapped-once", func() { // a repetition count of 1 still makes a fresh, deep copy
		n := p.fresh("arr")
		p.stmts = append(p.stmts, pt.InferDecl{Name: n, X: pt.Bin("*", pt.A(src), pt.N(1))})
		p.obs = append(p.obs, pt.V(n))
		p.created++
	})
	add("repeat-wrapped", func() {
		n := p.fresh("arr")
		p.stmts = append(p.stmts, pt.InferDecl{Name: n, X: pt.Bin("*", pt.A(src), pt.N(2))})
		p.obs = append(p.obs, pt.V(n))
		p.created++
	})
	if T.K != pt.Any {
		add("wrap-any", func() {
			n := p.fresh("x")
			p.stmts = append(p.stmts, pt.TypedDecl{Name: n, T: pt.TAny}, pt.Assign{Target: pt.V(n), X: src})
			p.obs = append(p.obs, pt.V(n))
			p.created++
		})
		add("any-array-element", func() {
			n := p.fresh("xs")
			p.stmts = append(p.stmts, pt.TypedDecl{Name: n, T: pt.ArrOf(pt.TAny)}, pt.Assign{Target: pt.V(n), X: pt.A(pt.S("z"), pt.N(0))},
				pt.Assign{Target: pt.Index{X: pt.V(n), I: pt.N(1)}, X: src})
			p.obs = append(p.obs, pt.V(n))
			p.created++
		})
		add("loop-variable", func() {
			n := p.fresh("arr")
			lv := p.fresh("e")
			p.stmts = append(p.stmts, pt.InferDecl{Name: n, X: pt.A(src, src)},
				pt.For{Var: lv, Range: []pt.Expr{pt.V(n)}, Body: []pt.Stmt{pt.Assign{Target: pt.V(lv), X: k.v2}, pt.Print(pt.S("loop"), pt.V(lv), pt.V(n))}})
			p.obs = append(p.obs, pt.V(n))
			p.created++
			p.updated++
		})
	}
	if T.K == pt.Arr {
		add("slice", func() { p.declare(p.fresh("b"), pt.Slice{X: src}); p.created++ })
		add("concat", func() { p.declare(p.fresh("b"), pt.Bin("+", src, pt.A())); p.created++ })
		add("concat-self", func() { p.declare(p.fresh("b"), pt.Bin("+", src, src)); p.created++ })
		// appending one element: the result of a concatenation has spare capacity, later results must not share it
		add("concat-one", func() { p.declare(p.fresh("b"), pt.Bin("+", src, pt.A(k.elem))); p.created++ })
		add("concat-other", func() {
			p.declare(p.fresh("b"), pt.Bin("+", src, pt.ArrLit{Els: k.v2.(pt.ArrLit).Els[:1]}))
			p.created++
		})
		add("repeat-once", func() { p.declare(p.fresh("b"), pt.Bin("*", src, pt.N(1))); p.created++ })
		add("repeat", func() { p.declare(p.fresh("b"), pt.Bin("*", src, pt.N(2))); p.created++ })
	}
	if T.K == pt.Bool {
		add("alias-from-err", func() {
			dst := p.vars[c.Choose(len(p.vars), "dst")]
			p.stmts = append(p.stmts, pt.Assign{Target: pt.V(dst), X: pt.V("err")})
			p.created++
		})
		add("alias-to-err", func() { p.stmts = append(p.stmts, pt.Assign{Target: pt.V("err"), X: src}); p.created++ })
		add("store-err-in-array", func() {
			n := p.fresh("arr")
			p.stmts = append(p.stmts, pt.InferDecl{Name: n, X: pt.A(pt.B(true))}, pt.Assign{Target: pt.Index{X: pt.V(n), I: pt.N(0)}, X: pt.V("err")})
			p.obs = append(p.obs, pt.V(n))
			p.created++
		})
	}
	if T.K == pt.Bool || T.K == pt.Str {
		// a function result is a value of its own: returning err / errmsg does not hand out the global
		add("assign-from-func-returning-global", func() {
			g := "err"
			if T.K == pt.Str {
				g = "errmsg"
			}
			p.funcs["ge"] = pt.Func{Name: "ge", Ret: T, Body: []pt.Stmt{pt.Return{X: pt.V(g)}}}
			dst := p.vars[c.Choose(len(p.vars), "dst")]
			n := p.fresh("arr")
			p.stmts = append(p.stmts, pt.Assign{Target: pt.V(dst), X: pt.C("ge")}, pt.InferDecl{Name: n, X: pt.A(k.v1)}, pt.Assign{Target: pt.Index{X: pt.V(n), I: pt.N(0)}, X: pt.C("ge")})
			p.obs = append(p.obs, pt.V(n))
			p.created++
		})
	}
	if T.K == pt.Bool {
		add("err-in-literals", func() {
			a, m := p.fresh("arr"), p.fresh("mp")
			p.stmts = append(p.stmts, pt.InferDecl{Name: a, X: pt.A(pt.V("err"))}, pt.InferDecl{Name: m, X: pt.M("k", pt.V("err"))})
			p.obs = append(p.obs, pt.V(a), pt.V(m))
			p.created++
		})
	}
	if T.K == pt.Str {
		add("errmsg-in-literals", func() {
			a, m := p.fresh("arr"), p.fresh("mp")
			p.stmts = append(p.stmts, pt.InferDecl{Name: a, X: pt.A(pt.V("errmsg"))}, pt.InferDecl{Name: m, X: pt.M("k", pt.V("errmsg"))})
			p.obs = append(p.obs, pt.V(a), pt.V(m))
			p.created++
		})
		add("alias-from-errmsg", func() {
			dst := p.vars[c.Choose(len(p.vars), "dst")]
			p.stmts = append(p.stmts, pt.Assign{Target: pt.V(dst), X: pt.V("errmsg")})
			p.created++
		})
		add("alias-to-errmsg", func() { p.stmts = append(p.stmts, pt.Assign{Target: pt.V("errmsg"), X: src}); p.created++ })
		add("store-errmsg-in-map", func() {
			n := p.fresh("mp")
			p.stmts = append(p.stmts, pt.InferDecl{Name: n, X: pt.M("k", pt.S("z"))}, pt.Assign{Target: pt.Dot{X: pt.V(n), Key: "k"}, X: pt.V("errmsg")})
			p.obs = append(p.obs, pt.V(n))
			p.created++
		})
	}
	// ---- updates
	add("reassign", func() {
		val := k.v2
		if c.Choose(2, "val") == 1 {
			val = k.v1
		}
		p.stmts = append(p.stmts, pt.Assign{Target: src, X: val})
		p.updated++
	})
	if p.isComposite() {
		if T.K == pt.Arr {
			add("element-store", func() {
				p.stmts = append(p.stmts, pt.Assign{Target: pt.Index{X: src, I: pt.N(0)}, X: k.elem})
				p.updated++
			})
			if T.Sub.K == pt.Arr {
				add("nested-element-store", func() {
					p.stmts = append(p.stmts, pt.Assign{Target: pt.Index{X: pt.Index{X: src, I: pt.N(0)}, I: pt.N(0)}, X: pt.N(5)})
					p.updated++
				})
			}
		} else {
			add("field-store", func() { p.stmts = append(p.stmts, pt.Assign{Target: pt.Dot{X: src, Key: "a"}, X: k.elem}); p.updated++ })
			add("field-insert", func() {
				p.stmts = append(p.stmts, pt.Assign{Target: pt.Index{X: src, I: pt.S("n")}, X: k.elem})
				p.updated++
			})
			add("del", func() { p.stmts = append(p.stmts, pt.CallStmt{C: pt.C("del", src, pt.S("a"))}); p.updated++ })
		}
	}
	if k.name == "any([]num)" {
		add("element-store-through-assertion", func() {
			n := p.fresh("t")
			p.stmts = append(p.stmts, pt.InferDecl{Name: n, X: pt.Assert{X: src, T: tNumArr}}, pt.Assign{Target: pt.Index{X: pt.V(n), I: pt.N(0)}, X: pt.N(9)})
			p.obs = append(p.obs, pt.V(n))
			p.updated++
		})
	}
	add("arguments-around-a-conversion", func() {
		// arguments are values: err / errmsg (and the aliases made so far) passed before a conversion in the same call keep what they held
		args := []pt.Expr{pt.S("args"), pt.V("err"), pt.V("errmsg"), src, pt.C("str2num", pt.S("x")), pt.V("err"), pt.V("errmsg"), src, pt.C("str2bool", pt.S("true")), pt.V("err"), pt.V("errmsg")}
		p.stmts = append(p.stmts, pt.CallStmt{C: pt.Call{Name: "print", Args: args}})
		p.updated++
	})
	add("conversion-fails", func() {
		n := p.fresh("c")
		p.stmts = append(p.stmts, pt.InferDecl{Name: n, X: pt.C("str2num", pt.S("x"))})
		p.obs = append(p.obs, pt.V(n))
		p.updated++
	})
	add("conversion-succeeds", func() {
		n := p.fresh("c")
		p.stmts = append(p.stmts, pt.InferDecl{Name: n, X: pt.C("str2bool", pt.S("true"))})
		p.obs = append(p.obs, pt.V(n))
		p.updated++
	})
	a := acts[c.Choose(len(acts), "action")]
	p.actions = append(p.actions, a.name)
	a.do()
}

func runC09(w *fw.Worker) {
	steps := 3
	if !w.Quick() {
		steps = 4
	}
	for _, k := range c9kinds {
		for n := 1; n <= steps; n++ {
			k, n := k, n
			fw.Explore(-1, func(c *fw.Ctx) {
				if w.Expired() {
					return
				}
				p := &c9prog{kind: k, funcs: map[string]pt.Stmt{}}
				p.declare("a", k.v1)
				p.observe()
				for i := 0; i < n; i++ {
					p.step(c)
					p.observe()
				}
				var stmts []pt.Stmt
				for _, name := range fw.SortedKeys(p.funcs) {
					stmts = append(stmts, p.funcs[name])
				}
				stmts = append(stmts, p.stmts...)
				prog := &pt.Prog{Stmts: stmts}
				src := pt.Source(prog)
				w.Case(src, func() *fw.Violation {
					if p.created > 0 && p.updated > 0 {
						w.Nontrivial()
					}
					v, skip := diffProg(w, "alias", src, prog, nil)
					for _, a := range p.actions {
						if skip {
							w.Count("action-skipped:"+a, 1)
						} else {
							w.Count("action-judged:"+a, 1)
						}
					}
					if n == 2 && p.created > 0 && p.updated > 0 {
						w.Sample(src)
					}
					return v
				})
			}, func(*fw.Ctx) bool { return !w.Expired() })
		}
	}
}
