package checks

import (
	"encoding/json"
	"fmt"
	"time"

	"verif/mc/fw"
	"verif/mc/pt"
)

// C10 — lexical scoping and structured control flow.

func init() {
	fw.Register(&fw.Check{
		ID:    "C10",
		Level: "exploration",
		Rule: "(a) all nestings to depth 2 (quick) / 3 (thorough) of {if, if/else, else-if chain, while, for over num/array/string/map, call of a function defined after its use} where every " +
			"block prints a marker with the visible variables and carries one feature from {update of an outer variable, shadowing declaration, block-local declaration, conditional or " +
			"final break, conditional or final return (bare/value)}; (b) every numeric range over {-2,-1,-0.5,0,0.5,1,2,3}^{1,2,3} incl. bounds changed in the body; (c) array/map/string " +
			"ranges whose body mutates the collection; (d) direct and mutual recursion, call before definition, parameter shadowing a global. Compared with the reference interpreter. " +
			"Non-trivial = nesting depth >= 2 or a loop/recursion is executed.",
		Assumptions: []string{"programs beyond the nesting bound are not explored"},
		TrustedBase: []string{"reference interpreter (frames chained lexically; function frames chained to the global frame)"},
		Run:         runC10,
		Replay: func(sub string, in json.RawMessage) *fw.Violation {
			var d DiffInput
			json.Unmarshal(in, &d)
			return replayDiff(sub, d)
		},
		DeadlineQuick: 4 * time.Minute, DeadlineThorough: 25 * time.Minute,
		Vacuity: func(m *fw.Result) string {
			if m.Outcomes["panic:range"] == 0 || m.Outcomes["ok"] < 1000 {
				return fmt.Sprint("outcomes degenerate: ", m.Outcomes)
			}
			return ""
		},
	})
}

type c10gen struct {
	c     *fw.Ctx
	n     int
	funcs []pt.Stmt
	depth int
	// trace: record observations by appending to the global arrays tn ([]num) / ts ([]string) instead of
	// calling print (for targets without built-ins, e.g. the bytecode compiler)
	trace bool
}

// num records a numeric observation.
func (g *c10gen) num(tag string, e pt.Expr) pt.Stmt {
	if g.trace {
		return pt.Assign{Target: pt.V("tn"), X: pt.Bin("+", pt.V("tn"), pt.A(e))}
	}
	return pt.Print(pt.S(tag), e)
}

// str records a string observation.
func (g *c10gen) str(tag string, e pt.Expr) pt.Stmt {
	if g.trace {
		return pt.Assign{Target: pt.V("ts"), X: pt.Bin("+", pt.V("ts"), pt.A(pt.S(tag), e))}
	}
	return pt.Print(pt.S(tag), e)
}

// tag records a position marker.
func (g *c10gen) tag(tag string) pt.Stmt {
	if g.trace {
		return pt.Assign{Target: pt.V("ts"), X: pt.Bin("+", pt.V("ts"), pt.A(pt.S(tag)))}
	}
	return pt.Print(pt.S(tag))
}

type c10ctx struct {
	inLoop bool
	inFunc bool
	retNum bool
	nested bool // not in the scope where g was declared
}

func (g *c10gen) id() string { g.n++; return fmt.Sprint(g.n) }

func (g *c10gen) marker(tag string) pt.Stmt { return g.num(tag, pt.V("g")) }

// block generates the statements of one block with d more nesting levels available.
func (g *c10gen) block(d int, cx c10ctx) []pt.Stmt {
	id := g.id()
	out := []pt.Stmt{g.marker("b" + id)}
	// feature
	feats := []string{"none", "update", "local"}
	if cx.nested {
		feats = append(feats, "shadow")
	}
	if cx.inLoop {
		feats = append(feats, "cond-break", "break")
	}
	if cx.inFunc {
		feats = append(feats, "cond-return", "return")
	}
	if cx.nested && cx.inLoop {
		feats = append(feats, "shadow-break") // leaves the loop while a shadowing declaration is live
	}
	if cx.nested && cx.inFunc {
		feats = append(feats, "shadow-return")
	}
	feat := feats[g.c.Choose(len(feats), "feature")]
	var tail []pt.Stmt
	shadowed := false
	switch feat {
	case "update":
		out = append(out, pt.Assign{Target: pt.V("g"), X: pt.Bin("+", pt.V("g"), pt.N(1))})
	case "local":
		out = append(out, pt.InferDecl{Name: "l" + id, X: pt.Bin("*", pt.V("g"), pt.N(10))}, g.num("l"+id, pt.V("l"+id)))
	case "shadow":
		out = append(out, pt.InferDecl{Name: "g", X: pt.S("sh" + id)}, g.str("s"+id, pt.V("g")))
		shadowed = true
	case "shadow-break":
		out = append(out, pt.InferDecl{Name: "g", X: pt.S("sh" + id)}, g.str("s"+id, pt.V("g")))
		shadowed = true
		tail = []pt.Stmt{pt.Break{}}
	case "shadow-return":
		out = append(out, pt.InferDecl{Name: "g", X: pt.S("sh" + id)}, g.str("s"+id, pt.V("g")))
		shadowed = true
		if cx.retNum {
			tail = []pt.Stmt{pt.Return{X: pt.N(7)}}
		} else {
			tail = []pt.Stmt{pt.Return{}}
		}
	case "cond-break":
		out = append(out, pt.If{Conds: []pt.Expr{pt.Bin(">=", pt.V("g"), pt.N(1))}, Blocks: [][]pt.Stmt{{g.marker("cb" + id), pt.Break{}}}})
	case "break":
		tail = []pt.Stmt{pt.Break{}}
	case "cond-return":
		out = append(out, pt.If{Conds: []pt.Expr{pt.Bin(">=", pt.V("g"), pt.N(1))}, Blocks: [][]pt.Stmt{{g.marker("cr" + id), g.ret(cx)}}})
	case "return":
		tail = []pt.Stmt{g.ret(cx)}
	}
	if d > 0 && !shadowed {
		inner := cx
		inner.nested = true
		kinds := []string{"none", "if", "if-else", "else-if", "while", "for-num", "for-arr", "for-str", "for-map", "call"}
		switch kinds[g.c.Choose(len(kinds), "construct")] {
		case "if":
			out = append(out, pt.If{Conds: []pt.Expr{pt.Bin("<", pt.V("g"), pt.N(2))}, Blocks: [][]pt.Stmt{g.block(d-1, inner)}})
		case "if-else":
			out = append(out, pt.If{Conds: []pt.Expr{pt.Bin("==", pt.V("g"), pt.N(0))}, Blocks: [][]pt.Stmt{g.block(d-1, inner)}, Else: g.block(d-1, inner)})
		case "else-if":
			out = append(out, pt.If{Conds: []pt.Expr{pt.Bin(">", pt.V("g"), pt.N(5)), pt.Bin(">=", pt.V("g"), pt.N(1))},
				Blocks: [][]pt.Stmt{{g.marker("x" + id)}, g.block(d-1, inner)}, Else: []pt.Stmt{g.marker("y" + id)}})
		case "while":
			inner.inLoop = true
			wv := "w" + id
			body := append([]pt.Stmt{pt.Assign{Target: pt.V(wv), X: pt.Bin("+", pt.V(wv), pt.N(1))}}, g.block(d-1, inner)...)
			out = append(out, pt.InferDecl{Name: wv, X: pt.N(0)}, pt.While{Cond: pt.Bin("<", pt.V(wv), pt.N(2)), Body: body}, g.num(wv, pt.V(wv)))
		case "for-num":
			inner.inLoop = true
			iv := "i" + id
			body := append([]pt.Stmt{g.num(iv, pt.V(iv))}, g.block(d-1, inner)...)
			out = append(out, pt.For{Var: iv, Range: []pt.Expr{pt.N(2)}, Body: body})
		case "for-arr":
			inner.inLoop = true
			iv := "e" + id
			body := append([]pt.Stmt{g.str(iv, pt.V(iv))}, g.block(d-1, inner)...)
			out = append(out, pt.For{Var: iv, Range: []pt.Expr{pt.A(pt.S("p"), pt.S("q"))}, Body: body})
		case "for-str":
			inner.inLoop = true
			iv := "c" + id
			body := append([]pt.Stmt{g.str(iv, pt.V(iv))}, g.block(d-1, inner)...)
			out = append(out, pt.For{Var: iv, Range: []pt.Expr{pt.S("é😀")}, Body: body})
		case "for-map":
			inner.inLoop = true
			iv := "k" + id
			body := append([]pt.Stmt{g.str(iv, pt.V(iv))}, g.block(d-1, inner)...)
			out = append(out, pt.For{Var: iv, Range: []pt.Expr{pt.M("b", pt.N(1), "a", pt.N(2))}, Body: body})
		case "call":
			fn := "f" + id
			retNum := g.c.Choose(2, "ret") == 1
			fcx := c10ctx{inFunc: true, retNum: retNum, nested: true}
			body := g.block(d-1, fcx)
			f := pt.Func{Name: fn, Body: body}
			if retNum {
				f.Ret = pt.TNum
				f.Body = append(f.Body, pt.Return{X: pt.Bin("+", pt.V("g"), pt.N(100))})
				out = append(out, g.num("r"+id, pt.C(fn)))
			} else {
				out = append(out, pt.CallStmt{C: pt.C(fn)})
			}
			g.funcs = append(g.funcs, f)
		}
	}
	if tail == nil {
		if shadowed {
			out = append(out, g.str("e"+id, pt.V("g")))
		} else {
			out = append(out, g.marker("e"+id))
		}
	}
	return append(out, tail...)
}

func (g *c10gen) ret(cx c10ctx) pt.Stmt {
	if cx.retNum {
		return pt.Return{X: pt.Bin("-", pt.N(0), pt.V("g"))}
	}
	return pt.Return{}
}

func runC10(w *fw.Worker) {
	do := func(sub string, nontrivial bool, prog *pt.Prog, sample bool) {
		src := pt.Source(prog)
		w.Case(src, func() *fw.Violation {
			if nontrivial {
				w.Nontrivial()
			}
			v, _ := diffProg(w, sub, src, prog, nil)
			if sample {
				w.Sample(src)
			}
			return v
		})
	}
	// (a) nestings
	depth := 2
	if !w.Quick() {
		depth = 3
	}
	for d := 0; d <= depth; d++ {
		d := d
		count := 0
		bound := -1
		if d == 3 {
			bound = 6 // depth 3: all programs with at most 6 non-default choices
			w.NotExhaustive("depth-3 nestings are explored up to 6 deviations from the default choices, not exhaustively")
		}
		fw.Explore(bound, func(c *fw.Ctx) {
			if w.Expired() {
				return
			}
			g := &c10gen{c: c}
			body := g.block(d, c10ctx{})
			stmts := []pt.Stmt{pt.InferDecl{Name: "g", X: pt.N(0)}}
			stmts = append(stmts, body...)
			// a global declared after the nested body is visible to functions: the body left the scope stack balanced
			stmts = append(stmts, pt.InferDecl{Name: "late", X: pt.Bin("+", pt.V("g"), pt.N(1))}, pt.CallStmt{C: pt.C("showlate")})
			stmts = append(stmts, pt.Print(pt.S("end"), pt.V("g")))
			stmts = append(stmts, g.funcs...)
			stmts = append(stmts, pt.Func{Name: "showlate", Body: []pt.Stmt{pt.Print(pt.S("late"), pt.V("late"), pt.V("g"))}})
			count++
			do("nesting", d >= 2, &pt.Prog{Stmts: stmts}, d == 2 && count%500 == 0)
		}, func(*fw.Ctx) bool { return !w.Expired() })
	}
	// (b) numeric ranges
	vals := []float64{-2, -1, -0.5, 0, 0.5, 1, 2, 3}
	rangeProg := func(args []pt.Expr, pre []pt.Stmt, bodyExtra []pt.Stmt) *pt.Prog {
		body := append([]pt.Stmt{pt.Print(pt.S("i"), pt.V("i"))}, bodyExtra...)
		stmts := append(append([]pt.Stmt(nil), pre...), pt.For{Var: "i", Range: args, Body: body}, pt.Print(pt.S("done")))
		return &pt.Prog{Stmts: stmts}
	}
	for _, a := range vals {
		do("range", true, rangeProg([]pt.Expr{pt.N(a)}, nil, nil), false)
		for _, b := range vals {
			do("range", true, rangeProg([]pt.Expr{pt.N(a), pt.N(b)}, nil, nil), false)
			for _, c := range vals {
				do("range", true, rangeProg([]pt.Expr{pt.N(a), pt.N(b), pt.N(c)}, nil, nil), a == 0 && b == 2)
				// bounds as variables that the body modifies: evaluated once at loop entry
				pre := []pt.Stmt{pt.InferDecl{Name: "lo", X: pt.N(a)}, pt.InferDecl{Name: "hi", X: pt.N(b)}, pt.InferDecl{Name: "st", X: pt.N(c)}}
				extra := []pt.Stmt{pt.Assign{Target: pt.V("hi"), X: pt.Bin("+", pt.V("hi"), pt.N(1))}, pt.Assign{Target: pt.V("st"), X: pt.Bin("*", pt.V("st"), pt.N(2))},
					pt.Assign{Target: pt.V("lo"), X: pt.N(0)}, pt.Assign{Target: pt.V("i"), X: pt.Bin("+", pt.V("i"), pt.N(10))}, pt.Print(pt.S("b"), pt.V("lo"), pt.V("hi"), pt.V("st"), pt.V("i"))}
				do("range-once", true, rangeProg([]pt.Expr{pt.V("lo"), pt.V("hi"), pt.V("st")}, pre, extra), false)
			}
		}
	}
	// loop without variable, nested break leaves exactly the innermost loop
	do("range", true, &pt.Prog{Stmts: []pt.Stmt{pt.For{Range: []pt.Expr{pt.N(2)}, Body: []pt.Stmt{pt.Print(pt.S("x"))}}}}, false)
	// (c) collections mutated in the body
	arrDecl := pt.InferDecl{Name: "arr", X: pt.A(pt.N(1), pt.N(2), pt.N(3))}
	mapDecl := pt.InferDecl{Name: "m", X: pt.M("a", pt.N(1), "b", pt.N(2), "c", pt.N(3))}
	strDecl := pt.InferDecl{Name: "s", X: pt.S("aé😀")}
	mut := [][]pt.Stmt{
		{arrDecl, pt.For{Var: "e", Range: []pt.Expr{pt.V("arr")}, Body: []pt.Stmt{pt.Print(pt.V("e")), pt.Assign{Target: pt.Index{X: pt.V("arr"), I: pt.N(2)}, X: pt.N(9)}}}, pt.Print(pt.V("arr"))},
		{arrDecl, pt.For{Var: "e", Range: []pt.Expr{pt.V("arr")}, Body: []pt.Stmt{pt.Print(pt.V("e")), pt.Assign{Target: pt.V("arr"), X: pt.Bin("+", pt.V("arr"), pt.A(pt.N(7)))}}}, pt.Print(pt.V("arr"))},
		{arrDecl, pt.For{Var: "e", Range: []pt.Expr{pt.V("arr")}, Body: []pt.Stmt{pt.Assign{Target: pt.V("e"), X: pt.N(0)}, pt.Print(pt.V("e"))}}, pt.Print(pt.V("arr"))},
		{arrDecl, pt.For{Var: "e", Range: []pt.Expr{pt.V("arr")}, Body: []pt.Stmt{pt.Print(pt.V("e")), pt.Assign{Target: pt.V("arr"), X: pt.A()}}}, pt.Print(pt.V("arr"))},
		{strDecl, pt.For{Var: "ch", Range: []pt.Expr{pt.V("s")}, Body: []pt.Stmt{pt.Print(pt.V("ch")), pt.Assign{Target: pt.V("s"), X: pt.Bin("+", pt.V("s"), pt.S("z"))}}}, pt.Print(pt.V("s"))},
		{strDecl, pt.For{Var: "ch", Range: []pt.Expr{pt.V("s")}, Body: []pt.Stmt{pt.Print(pt.V("ch")), pt.Assign{Target: pt.V("s"), X: pt.S("")}}}, pt.Print(pt.V("s"))},
		{mapDecl, pt.For{Var: "k", Range: []pt.Expr{pt.V("m")}, Body: []pt.Stmt{pt.Print(pt.V("k")), pt.CallStmt{C: pt.C("del", pt.V("m"), pt.S("b"))}}}, pt.Print(pt.V("m"))},
		{mapDecl, pt.For{Var: "k", Range: []pt.Expr{pt.V("m")}, Body: []pt.Stmt{pt.Print(pt.V("k")), pt.Assign{Target: pt.Dot{X: pt.V("m"), Key: "z"}, X: pt.N(0)}}}, pt.Print(pt.V("m"))},
		{mapDecl, pt.For{Var: "k", Range: []pt.Expr{pt.V("m")}, Body: []pt.Stmt{pt.Print(pt.V("k")), pt.CallStmt{C: pt.C("del", pt.V("m"), pt.S("c"))}, pt.Assign{Target: pt.Dot{X: pt.V("m"), Key: "c"}, X: pt.N(5)}}}, pt.Print(pt.V("m"))},
		{mapDecl, pt.For{Var: "k", Range: []pt.Expr{pt.V("m")}, Body: []pt.Stmt{pt.Print(pt.V("k")), pt.Assign{Target: pt.V("m"), X: pt.M("q", pt.N(1))}}}, pt.Print(pt.V("m"))},
		// the same loops without a loop variable: the number of iterations follows the same rules
		{mapDecl, pt.For{Range: []pt.Expr{pt.V("m")}, Body: []pt.Stmt{pt.Print(pt.S("turn")), pt.CallStmt{C: pt.C("del", pt.V("m"), pt.S("c"))}}}, pt.Print(pt.V("m"))},
		{mapDecl, pt.For{Range: []pt.Expr{pt.V("m")}, Body: []pt.Stmt{pt.Print(pt.S("turn")), pt.Assign{Target: pt.Dot{X: pt.V("m"), Key: "z"}, X: pt.N(0)}}}, pt.Print(pt.V("m"))},
		{mapDecl, pt.InferDecl{Name: "n", X: pt.V("m")}, pt.For{Range: []pt.Expr{pt.V("m")}, Body: []pt.Stmt{pt.Print(pt.S("turn")), pt.For{Var: "k", Range: []pt.Expr{pt.V("n")}, Body: []pt.Stmt{pt.CallStmt{C: pt.C("del", pt.V("n"), pt.V("k"))}}}}}, pt.Print(pt.V("m"))},
		{arrDecl, pt.For{Range: []pt.Expr{pt.V("arr")}, Body: []pt.Stmt{pt.Print(pt.S("turn")), pt.Assign{Target: pt.V("arr"), X: pt.A()}}}, pt.Print(pt.V("arr"))},
		{strDecl, pt.For{Range: []pt.Expr{pt.V("s")}, Body: []pt.Stmt{pt.Print(pt.S("turn")), pt.Assign{Target: pt.V("s"), X: pt.S("")}}}, pt.Print(pt.V("s"))},
		// nested loops: break leaves only the inner loop
		{pt.For{Var: "i", Range: []pt.Expr{pt.N(2)}, Body: []pt.Stmt{pt.For{Var: "j", Range: []pt.Expr{pt.N(3)}, Body: []pt.Stmt{
			pt.If{Conds: []pt.Expr{pt.Bin("==", pt.V("j"), pt.N(1))}, Blocks: [][]pt.Stmt{{pt.Break{}}}}, pt.Print(pt.V("i"), pt.V("j"))}}, pt.Print(pt.S("after"), pt.V("i"))}}},
		{pt.InferDecl{Name: "n", X: pt.N(0)}, pt.While{Cond: pt.Bin("<", pt.V("n"), pt.N(3)), Body: []pt.Stmt{pt.Assign{Target: pt.V("n"), X: pt.Bin("+", pt.V("n"), pt.N(1))},
			pt.While{Cond: pt.B(true), Body: []pt.Stmt{pt.Print(pt.S("in"), pt.V("n")), pt.Break{}}}, pt.Print(pt.S("out"), pt.V("n"))}}},
	}
	for _, p := range mut {
		do("mutate", true, &pt.Prog{Stmts: p}, false)
	}
	// (d) functions: call before definition, recursion, mutual recursion, parameters shadowing globals, return from nested loops
	fns := [][]pt.Stmt{
		{pt.Print(pt.C("fact", pt.N(5))), pt.Func{Name: "fact", Ret: pt.TNum, Params: []pt.Param{{Name: "n", T: pt.TNum}}, Body: []pt.Stmt{
			pt.If{Conds: []pt.Expr{pt.Bin("<=", pt.V("n"), pt.N(1))}, Blocks: [][]pt.Stmt{{pt.Return{X: pt.N(1)}}}}, pt.Return{X: pt.Bin("*", pt.V("n"), pt.C("fact", pt.Bin("-", pt.V("n"), pt.N(1))))}}}},
		{pt.Print(pt.C("even", pt.N(4)), pt.C("even", pt.N(3))),
			pt.Func{Name: "even", Ret: pt.TBool, Params: []pt.Param{{Name: "n", T: pt.TNum}}, Body: []pt.Stmt{
				pt.If{Conds: []pt.Expr{pt.Bin("==", pt.V("n"), pt.N(0))}, Blocks: [][]pt.Stmt{{pt.Return{X: pt.B(true)}}}}, pt.Return{X: pt.C("odd", pt.Bin("-", pt.V("n"), pt.N(1)))}}},
			pt.Func{Name: "odd", Ret: pt.TBool, Params: []pt.Param{{Name: "n", T: pt.TNum}}, Body: []pt.Stmt{
				pt.If{Conds: []pt.Expr{pt.Bin("==", pt.V("n"), pt.N(0))}, Blocks: [][]pt.Stmt{{pt.Return{X: pt.B(false)}}}}, pt.Return{X: pt.C("even", pt.Bin("-", pt.V("n"), pt.N(1)))}}}},
		{pt.InferDecl{Name: "x", X: pt.N(1)}, pt.InferDecl{Name: "y", X: pt.S("gy")}, pt.CallStmt{C: pt.C("f", pt.N(7))}, pt.Print(pt.V("x"), pt.V("y")),
			pt.Func{Name: "f", Params: []pt.Param{{Name: "x", T: pt.TNum}}, Body: []pt.Stmt{pt.Print(pt.S("in"), pt.V("x"), pt.V("y")), pt.Assign{Target: pt.V("x"), X: pt.N(8)},
				pt.Assign{Target: pt.V("y"), X: pt.S("changed")}, pt.InferDecl{Name: "z", X: pt.V("x")}, pt.Print(pt.V("z"))}}},
		{pt.Print(pt.C("find")), pt.Func{Name: "find", Ret: pt.TNum, Body: []pt.Stmt{
			pt.For{Var: "i", Range: []pt.Expr{pt.N(3)}, Body: []pt.Stmt{pt.For{Var: "j", Range: []pt.Expr{pt.N(3)}, Body: []pt.Stmt{pt.While{Cond: pt.B(true), Body: []pt.Stmt{
				pt.If{Conds: []pt.Expr{pt.Bin("==", pt.Bin("+", pt.V("i"), pt.V("j")), pt.N(3))}, Blocks: [][]pt.Stmt{{pt.Return{X: pt.Bin("+", pt.Bin("*", pt.V("i"), pt.N(10)), pt.V("j"))}}}},
				pt.Break{}}}, pt.Print(pt.V("i"), pt.V("j"))}}}}, pt.Return{X: pt.N(-1)}}}},
		{pt.InferDecl{Name: "d", X: pt.N(0)}, pt.CallStmt{C: pt.C("rec", pt.N(3))}, pt.Print(pt.V("d")),
			pt.Func{Name: "rec", Params: []pt.Param{{Name: "n", T: pt.TNum}}, Body: []pt.Stmt{pt.InferDecl{Name: "loc", X: pt.Bin("*", pt.V("n"), pt.N(2))},
				pt.If{Conds: []pt.Expr{pt.Bin(">", pt.V("n"), pt.N(0))}, Blocks: [][]pt.Stmt{{pt.Assign{Target: pt.V("d"), X: pt.Bin("+", pt.V("d"), pt.N(1))}, pt.CallStmt{C: pt.C("rec", pt.Bin("-", pt.V("n"), pt.N(1)))}}}},
				pt.Print(pt.S("loc"), pt.V("loc"), pt.V("n"))}}},
		{pt.CallStmt{C: pt.C("vf", pt.N(1), pt.N(2))}, pt.CallStmt{C: pt.C("vf")}, pt.Func{Name: "vf", Params: []pt.Param{{Name: "xs", T: pt.TNum}}, Variadic: true,
			Body: []pt.Stmt{pt.Print(pt.C("len", pt.V("xs")), pt.V("xs")), pt.For{Var: "x", Range: []pt.Expr{pt.V("xs")}, Body: []pt.Stmt{pt.Print(pt.V("x"))}}}}},
	}
	for _, p := range fns {
		do("functions", true, &pt.Prog{Stmts: p}, false)
	}
}
