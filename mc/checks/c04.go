package checks

import (
	"encoding/json"
	"fmt"
	"strings"
	"time"

	"verif/mc/astconv"
	"verif/mc/fw"
	"verif/mc/pt"
	"verif/mc/ref"
	"verif/mc/run"
)

// C04 — static typing rules are exactly those of the specification.

func init() {
	fw.Register(&fw.Check{
		ID:    "C04",
		Level: "exploration",
		Rule: "full matrix: target type x value x context. Types = all types of nesting depth <= 3 (quick) / 4 (thorough) over num/string/bool/any with []/{} (60 / 124 types). Values per type: " +
			"variable, constant literal, literal containing a basic / composite variable, empty literals ([] {} [[]] [{}] {k:[]} {k:{}}), constant expressions ([1]+[2], ([1]), [1][:], [1]*2, [[1]][0], " +
			"{a:[1]}.a), call results. Contexts: typed declaration + assignment, inferred declaration, element / field assignment, fixed / variadic / generic built-in parameter, return value, " +
			"condition, range operand, index, slice bound, type-assertion source and target; plus every operator x left type x right type (variables and literals). One program per cell: " +
			"the parser must accept it iff the reference typing rules (docs/spec.md) accept it, and accepted programs must print the same typeof results as the reference. Cells the " +
			"specification does not settle (constant non-literal expressions converting to any-based composites) are counted but not judged. Non-trivial = target and value types differ.",
		Assumptions: []string{"types deeper than the bound are not explored (the rules are structural recursion)", "constant expressions that are not literals: specification and property statement disagree; not judged"},
		TrustedBase: []string{"reference typing rules /verif/mc/ref/types.go and check.go, written from docs/spec.md §Types, §Assignability, §Operators"},
		Run:         runC04,
		Replay: func(sub string, in json.RawMessage) *fw.Violation {
			var d DiffInput
			json.Unmarshal(in, &d)
			prog, errs, gp := run.Parse(d.Src)
			if gp != "" {
				return &fw.Violation{Sub: sub, Signature: "gopanic", What: gp, Input: d}
			}
			if prog == nil {
				return &fw.Violation{Sub: sub, Signature: "replay-needs-tree", What: "the source is rejected by the parser; the reference verdict needs the generated tree - rerun the check. Parser says: " + errs.Error(), Input: d}
			}
			p, err := astconv.Prog(prog)
			if err != nil {
				return &fw.Violation{Sub: sub, Signature: "replay-conv", What: err.Error(), Input: d}
			}
			return checkC04(nil, sub, d.Src, p)
		},
		DeadlineQuick: 4 * time.Minute, DeadlineThorough: 25 * time.Minute,
		Vacuity: func(m *fw.Result) string {
			if m.Counters["ref-accept"] < 2000 || m.Counters["ref-reject"] < 2000 {
				return fmt.Sprint("accept/reject cells too few: ", m.Counters)
			}
			return ""
		},
	})
}

func c04Types(depth int) []*pt.Type {
	base := []*pt.Type{pt.TNum, pt.TStr, pt.TBool, pt.TAny}
	all := append([]*pt.Type(nil), base...)
	prev := base
	for d := 0; d < depth; d++ {
		var next []*pt.Type
		for _, t := range prev {
			next = append(next, pt.ArrOf(t), pt.MapOf(t))
		}
		all = append(all, next...)
		prev = next
	}
	return all
}

// c04Lit builds a constant literal of exactly type t (nil if impossible: bare any).
func c04Lit(t *pt.Type) pt.Expr {
	switch t.K {
	case pt.Num:
		return pt.N(1)
	case pt.Str:
		return pt.S("a")
	case pt.Bool:
		return pt.B(true)
	case pt.Any:
		return nil
	case pt.Arr:
		if t.Sub.K == pt.Any {
			return pt.A(pt.N(1), pt.S("a"))
		}
		if e := c04Lit(t.Sub); e != nil {
			return pt.A(e)
		}
	case pt.Map:
		if t.Sub.K == pt.Any {
			return pt.M("k", pt.N(1), "j", pt.S("a"))
		}
		if e := c04Lit(t.Sub); e != nil {
			return pt.M("k", e)
		}
	}
	return nil
}

type c04Value struct {
	name string
	pre  []pt.Stmt // declarations the value needs
	x    pt.Expr
}

func c04Values(types []*pt.Type) []c04Value {
	var vs []c04Value
	for _, t := range types {
		vs = append(vs, c04Value{"var:" + t.String(), []pt.Stmt{pt.TypedDecl{Name: "v", T: t}}, pt.V("v")})
		if l := c04Lit(t); l != nil {
			vs = append(vs, c04Value{"lit:" + t.String(), nil, l})
		}
	}
	n := pt.TypedDecl{Name: "n", T: pt.TNum}
	a := pt.TypedDecl{Name: "a", T: tNumArr}
	mm := pt.TypedDecl{Name: "mm", T: tNumMap}
	x := pt.TypedDecl{Name: "x", T: pt.TAny}
	vs = append(vs,
		c04Value{"empty:[]", nil, pt.A()}, c04Value{"empty:{}", nil, pt.M()}, c04Value{"empty:[[]]", nil, pt.A(pt.A())},
		c04Value{"empty:[{}]", nil, pt.A(pt.M())}, c04Value{"empty:{k:[]}", nil, pt.M("k", pt.A())}, c04Value{"empty:{k:{}}", nil, pt.M("k", pt.M())},
		c04Value{"mixed:[1 []]", nil, pt.A(pt.A(pt.N(1)), pt.A())}, c04Value{"mixed:[[1] [\"a\"]]", nil, pt.A(pt.A(pt.N(1)), pt.A(pt.S("a")))},
		c04Value{"mixed:[1 2 {}]", nil, pt.A(pt.N(1), pt.N(2), pt.M())},
		c04Value{"mixed:[[\"x\" \"y\"] [10 20]]", nil, pt.A(pt.A(pt.S("x"), pt.S("y")), pt.A(pt.N(10), pt.N(20)))}, c04Value{"mixed:[{a:1} {a:\"s\"}]", nil, pt.A(pt.M("a", pt.N(1)), pt.M("a", pt.S("s")))},
		c04Value{"mixed:{p:[1] q:[true]}", nil, pt.M("p", pt.A(pt.N(1)), "q", pt.A(pt.B(true)))}, c04Value{"mixed:[[[1]] [[\"a\"]]]", nil, pt.A(pt.A(pt.A(pt.N(1))), pt.A(pt.A(pt.S("a"))))},
		c04Value{"mixed:[[] [1]]", nil, pt.A(pt.A(), pt.A(pt.N(1)))}, c04Value{"mixed:[{} {a:1}]", nil, pt.A(pt.M(), pt.M("a", pt.N(1)))},
		c04Value{"mixed:[{a:1} {}]", nil, pt.A(pt.M("a", pt.N(1)), pt.M())}, c04Value{"mixed:{p:{} q:{a:1}}", nil, pt.M("p", pt.M(), "q", pt.M("a", pt.N(1)))},
		c04Value{"mixed:{p:[1] q:[]}", nil, pt.M("p", pt.A(pt.N(1)), "q", pt.A())}, c04Value{"mixed:[[] [[1]]]", nil, pt.A(pt.A(), pt.A(pt.A(pt.N(1))))},
		c04Value{"mixed:[[[]] [1]]", nil, pt.A(pt.A(pt.A()), pt.A(pt.N(1)))}, c04Value{"mixed:{x:[[]] y:[\"a\"]}", nil, pt.M("x", pt.A(pt.A()), "y", pt.A(pt.S("a")))},
		c04Value{"mixed:[{a:[]} {b:1}]", nil, pt.A(pt.M("a", pt.A()), pt.M("b", pt.N(1)))}, c04Value{"mixed:[[1] [[]]]", nil, pt.A(pt.A(pt.N(1)), pt.A(pt.A()))},
		c04Value{"mixed:[[{}] [{a:1}]]", nil, pt.A(pt.A(pt.M()), pt.A(pt.M("a", pt.N(1))))},
		c04Value{"litvar-basic:[n]", []pt.Stmt{n}, pt.A(pt.V("n"))}, c04Value{"litvar-basic:{k:n}", []pt.Stmt{n}, pt.M("k", pt.V("n"))},
		c04Value{"litvar-basic:[[n]]", []pt.Stmt{n}, pt.A(pt.A(pt.V("n")))},
		c04Value{"litvar-comp:[a]", []pt.Stmt{a}, pt.A(pt.V("a"))}, c04Value{"litvar-comp:{k:a}", []pt.Stmt{a}, pt.M("k", pt.V("a"))},
		c04Value{"litvar-comp:[a [1]]", []pt.Stmt{a}, pt.A(pt.V("a"), pt.A(pt.N(1)))}, c04Value{"litvar-comp:[mm]", []pt.Stmt{mm}, pt.A(pt.V("mm"))},
		c04Value{"litvar-any:[x]", []pt.Stmt{x}, pt.A(pt.V("x"))},
		// a variable next to literals of the same / another / no element type, in both orders and in maps with several keys
		c04Value{"litvar-comp:[[1] a]", []pt.Stmt{a}, pt.A(pt.A(pt.N(1)), pt.V("a"))}, c04Value{"litvar-comp:[[1] a [\"x\"]]", []pt.Stmt{a}, pt.A(pt.A(pt.N(1)), pt.V("a"), pt.A(pt.S("x")))},
		c04Value{"litvar-comp:[a [\"x\"]]", []pt.Stmt{a}, pt.A(pt.V("a"), pt.A(pt.S("x")))},
		c04Value{"litvar-comp:{p:[2] q:a}", []pt.Stmt{a}, pt.M("p", pt.A(pt.N(2)), "q", pt.V("a"))}, c04Value{"litvar-comp:{p:a q:[2]}", []pt.Stmt{a}, pt.M("p", pt.V("a"), "q", pt.A(pt.N(2)))},
		c04Value{"litvar-comp:{z:[2] b:a c:[3]}", []pt.Stmt{a}, pt.M("z", pt.A(pt.N(2)), "b", pt.V("a"), "c", pt.A(pt.N(3)))},
		c04Value{"litvar-comp:[a []]", []pt.Stmt{a}, pt.A(pt.V("a"), pt.A())}, c04Value{"litvar-comp:[[] a]", []pt.Stmt{a}, pt.A(pt.A(), pt.V("a"))},
		c04Value{"litvar-comp:{p:mm q:{}}", []pt.Stmt{mm}, pt.M("p", pt.V("mm"), "q", pt.M())}, c04Value{"litvar-comp:{p:{} q:mm}", []pt.Stmt{mm}, pt.M("p", pt.M(), "q", pt.V("mm"))},
		c04Value{"litvar-comp:{k:[mm {}]}", []pt.Stmt{mm}, pt.M("k", pt.A(pt.V("mm"), pt.M()))},
		// a variable two levels down, next to an all-literal element of the same type, in both orders (a literal that contains a
		// variable of composite type anywhere is not convertible at that place)
		c04Value{"litvar-deep:[[[1]] [a]]", []pt.Stmt{a}, pt.A(pt.A(pt.A(pt.N(1))), pt.A(pt.V("a")))}, c04Value{"litvar-deep:[[a] [[1]]]", []pt.Stmt{a}, pt.A(pt.A(pt.V("a")), pt.A(pt.A(pt.N(1))))},
		c04Value{"litvar-deep:{p:[[1]] q:[a]}", []pt.Stmt{a}, pt.M("p", pt.A(pt.A(pt.N(1))), "q", pt.A(pt.V("a")))}, c04Value{"litvar-deep:[{k:[1]} {k:a}]", []pt.Stmt{a}, pt.A(pt.M("k", pt.A(pt.N(1))), pt.M("k", pt.V("a")))},
		c04Value{"litvar-deep:[[[1]] [[2]] [a]]", []pt.Stmt{a}, pt.A(pt.A(pt.A(pt.N(1))), pt.A(pt.A(pt.N(2))), pt.A(pt.V("a")))},
		c04Value{"constexpr:[1]+[2]", nil, pt.Bin("+", pt.A(pt.N(1)), pt.A(pt.N(2)))}, c04Value{"constexpr:([1])", nil, pt.Group{X: pt.A(pt.N(1))}},
		c04Value{"constexpr:[1][:]", nil, pt.Slice{X: pt.A(pt.N(1))}}, c04Value{"constexpr:[1]*2", nil, pt.Bin("*", pt.A(pt.N(1)), pt.N(2))},
		c04Value{"constexpr:[[1]][0]", nil, pt.Index{X: pt.A(pt.A(pt.N(1))), I: pt.N(0)}}, c04Value{"constexpr:{a:[1]}.a", nil, pt.Dot{X: pt.M("a", pt.A(pt.N(1))), Key: "a"}},
		c04Value{"constexpr:({k:1})", nil, pt.Group{X: pt.M("k", pt.N(1))}},
		c04Value{"emptyexpr:[]+[]", nil, pt.Bin("+", pt.A(), pt.A())}, c04Value{"emptyexpr:([])", nil, pt.Group{X: pt.A()}}, c04Value{"emptyexpr:[]*2", nil, pt.Bin("*", pt.A(), pt.N(2))},
		c04Value{"emptyexpr:[][:]", nil, pt.Slice{X: pt.A()}}, c04Value{"emptyexpr:({})", nil, pt.Group{X: pt.M()}}, c04Value{"emptyexpr:[]+[1]", nil, pt.Bin("+", pt.A(), pt.A(pt.N(1)))},
		c04Value{"emptyexpr:[]+[[]]", nil, pt.Bin("+", pt.A(), pt.A(pt.A()))}, c04Value{"emptyexpr:[[]]+[]", nil, pt.Bin("+", pt.A(pt.A()), pt.A())},
		c04Value{"emptyexpr:[]+[{}]", nil, pt.Bin("+", pt.A(), pt.A(pt.M()))},
		c04Value{"call:split", nil, pt.C("split", pt.S("a b"), pt.S(" "))}, c04Value{"call:len", nil, pt.C("len", pt.S("a"))},
		c04Value{"call:print(none)", nil, pt.C("cls")}, c04Value{"call:read", nil, pt.C("read")},
		c04Value{"assert:x.([]num)", []pt.Stmt{x}, pt.Assert{X: pt.V("x"), T: tNumArr}},
	)
	return vs
}

// c04AnyDepth is the nesting level at which t has any (0: t is any; 99: no any at all).
func c04AnyDepth(t *pt.Type) int {
	for d := 0; t != nil; d, t = d+1, t.Sub {
		if t.K == pt.Any {
			return d
		}
	}
	return 99
}

func runC04(w *fw.Worker) {
	depth := 3
	if !w.Quick() {
		depth = 4
	}
	types := c04Types(depth)
	values := c04Values(types)
	var curT *pt.Type // the target type of the binding-site cases being emitted
	emit := func(sub, cell string, nontrivial bool, stmts ...pt.Stmt) {
		target := curT
		prog := &pt.Prog{Stmts: stmts}
		src := pt.Source(prog)
		w.Case(src, func() *fw.Violation {
			if nontrivial {
				w.Nontrivial()
			}
			v := checkC04(w, sub, src, prog)
			if v != nil {
				if cell == "litvar-basic" && len(v.Signature) > 27 && v.Signature[:27] == "spec-rejects-parser-accepts" {
					// one narrow class: a composite literal whose only non-constant leaves are basic-typed
					// variables is converted to an any-based composite although the specification calls it a variable
					v.Signature = "spec-rejects-parser-accepts:literal-with-basic-variable-converts"
				} else if cell == "litvar-deep" && len(v.Signature) > 27 && v.Signature[:27] == "spec-rejects-parser-accepts" && c04AnyDepth(target) <= 2 {
					// a second narrow class: the variable sits two levels down and the target has any at level 1 or 2, so the
					// variable's value (or the literal directly around it) is stored in an any as it is - sound at run time, but the
					// specification calls such a literal a variable. A target with any only further down ([][][]any) would need the
					// variable itself converted and keeps the general signature.
					v.Signature = "spec-rejects-parser-accepts:literal-with-variable-below-top-level-converts"
				} else {
					v.Signature += ":" + cell
				}
			}
			if len(src) < 80 {
				w.Sample(src)
			}
			return v
		})
	}
	cat := func(ss ...[]pt.Stmt) []pt.Stmt {
		var out []pt.Stmt
		for _, s := range ss {
			out = append(out, s...)
		}
		return out
	}
	typeofPrint := func(e pt.Expr) pt.Stmt { return pt.Print(pt.C("typeof", e), e) }
	for _, T := range types {
		if w.Expired() {
			return
		}
		curT = T
		for _, val := range values {
			cell := val.name
			if i := indexByte(cell, ':'); i > 0 {
				cell = cell[:i]
			}
			nt := val.name != "var:"+T.String() && val.name != "lit:"+T.String()
			// typed declaration + assignment
			emit("assign", cell, nt, cat(val.pre, []pt.Stmt{pt.TypedDecl{Name: "t", T: T}, pt.Assign{Target: pt.V("t"), X: val.x}, typeofPrint(pt.V("t"))})...)
			// element and field assignment
			emit("assign-element", cell, nt, cat(val.pre, []pt.Stmt{pt.TypedDecl{Name: "t", T: pt.ArrOf(T)}, pt.Assign{Target: pt.Index{X: pt.V("t"), I: pt.N(0)}, X: val.x}})...)
			emit("assign-field", cell, nt, cat(val.pre, []pt.Stmt{pt.TypedDecl{Name: "t", T: pt.MapOf(T)}, pt.Assign{Target: pt.Dot{X: pt.V("t"), Key: "k"}, X: val.x}, typeofPrint(pt.Dot{X: pt.V("t"), Key: "k"})})...)
			// fixed and variadic parameter
			emit("param", cell, nt, cat(val.pre, []pt.Stmt{pt.CallStmt{C: pt.C("f", val.x)},
				pt.Func{Name: "f", Params: []pt.Param{{Name: "p", T: T}}, Body: []pt.Stmt{typeofPrint(pt.V("p"))}}})...)
			emit("variadic", cell, nt, cat(val.pre, []pt.Stmt{pt.CallStmt{C: pt.C("f", val.x, val.x)},
				pt.Func{Name: "f", Params: []pt.Param{{Name: "p", T: T}}, Variadic: true, Body: []pt.Stmt{typeofPrint(pt.V("p"))}}})...)
			// return value
			emit("return", cell, nt, cat(val.pre, []pt.Stmt{pt.InferDecl{Name: "r", X: pt.C("f")}, typeofPrint(pt.V("r")),
				pt.Func{Name: "f", Ret: T, Body: []pt.Stmt{pt.Return{X: val.x}}}})...)
		}
	}
	curT = nil
	// every binding site makes a variable: loop variables, parameters and variadic parameters have fixed types like declared variables
	for _, T := range types {
		use := []pt.Stmt{pt.TypedDecl{Name: "t", T: T}, pt.Assign{Target: pt.V("t"), X: pt.V("b")}, typeofPrint(pt.V("t"))}
		emit("bound", "loopvar-over-literal", true, pt.For{Var: "b", Range: []pt.Expr{pt.A(pt.A(pt.N(1)), pt.A(pt.N(2)))}, Body: use})
		emit("bound", "loopvar-over-variable", true, pt.InferDecl{Name: "xs", X: pt.A(pt.A(pt.N(1)), pt.A(pt.N(2)))}, pt.For{Var: "b", Range: []pt.Expr{pt.V("xs")}, Body: use})
		// the elements of an untyped nested empty literal: the loop variable has the inferred element type ([]any / {}any), fixed
		emit("bound", "loopvar-over-nested-empty", true, pt.For{Var: "b", Range: []pt.Expr{pt.A(pt.A())}, Body: use})
		emit("bound", "loopvar-over-nested-empty-map", true, pt.For{Var: "b", Range: []pt.Expr{pt.A(pt.M())}, Body: use})
		emit("bound", "loopvar-over-nested-empty-deep", true, pt.For{Var: "b", Range: []pt.Expr{pt.A(pt.A(pt.A()))}, Body: use})
		emit("bound", "loopvar-over-nested-empty-repeated", true, pt.For{Var: "b", Range: []pt.Expr{pt.Bin("*", pt.A(pt.A()), pt.N(2))}, Body: use})
		emit("bound", "loopvar-over-nested-empty-used", true, pt.For{Var: "b", Range: []pt.Expr{pt.A(pt.A())}, Body: append(append([]pt.Stmt(nil), use...),
			pt.Print(pt.Bin("==", pt.V("b"), pt.A(pt.N(1)))), pt.InferDecl{Name: "y", X: pt.V("b")}, pt.Print(pt.C("typeof", pt.V("y"))))})
		emit("bound", "loopvar-over-map-literal", true, pt.For{Var: "b", Range: []pt.Expr{pt.M("k", pt.N(1))}, Body: use})
		emit("bound", "loopvar-over-num-literals", true, pt.For{Var: "b", Range: []pt.Expr{pt.A(pt.N(1), pt.N(2))}, Body: use})
		emit("bound", "param", true, pt.Func{Name: "f", Params: []pt.Param{{Name: "b", T: tNumArr}}, Body: use}, pt.CallStmt{C: pt.C("f", pt.A(pt.N(1)))})
		emit("bound", "variadic-param", true, pt.Func{Name: "f", Params: []pt.Param{{Name: "b", T: pt.TNum}}, Variadic: true, Body: use}, pt.CallStmt{C: pt.C("f", pt.N(1), pt.N(2))})
		emit("bound", "func-result", true, pt.Func{Name: "mk", Ret: tNumArr, Body: []pt.Stmt{pt.Return{X: pt.A(pt.N(1))}}}, pt.InferDecl{Name: "b", X: pt.C("mk")}, use[0], use[1], use[2])
		emit("bound", "element-of-variable", true, pt.InferDecl{Name: "xs", X: pt.A(pt.A(pt.N(1)))}, pt.InferDecl{Name: "b", X: pt.Index{X: pt.V("xs"), I: pt.N(0)}}, use[0], use[1], use[2])
	}
	// contexts that do not depend on a target type
	for _, val := range values {
		cell := val.name
		pre := val.pre
		emit("infer-decl", cell, true, cat(pre, []pt.Stmt{pt.InferDecl{Name: "d", X: val.x}, typeofPrint(pt.V("d"))})...)
		emit("infer-indexed", cell, true, cat(pre, []pt.Stmt{pt.InferDecl{Name: "d", X: pt.Index{X: val.x, I: pt.N(0)}}, typeofPrint(pt.V("d"))})...)
		emit("infer-field", cell, true, cat(pre, []pt.Stmt{pt.InferDecl{Name: "d", X: pt.Dot{X: val.x, Key: "k"}}, typeofPrint(pt.V("d"))})...)
		emit("infer-sliced", cell, true, cat(pre, []pt.Stmt{pt.InferDecl{Name: "d", X: pt.Slice{X: val.x, Hi: pt.N(0)}}, typeofPrint(pt.V("d"))})...)
		emit("infer-grouped", cell, true, cat(pre, []pt.Stmt{pt.InferDecl{Name: "d", X: pt.Group{X: val.x}}, typeofPrint(pt.V("d"))})...)
		emit("infer-concat-self", cell, true, cat(pre, []pt.Stmt{pt.InferDecl{Name: "d", X: pt.Bin("+", val.x, val.x)}, typeofPrint(pt.V("d"))})...)
		emit("infer-in-literal", cell, true, cat(pre, []pt.Stmt{pt.InferDecl{Name: "d", X: pt.A(val.x, val.x)}, typeofPrint(pt.V("d"))})...)
		emit("infer-in-map-literal", cell, true, cat(pre, []pt.Stmt{pt.InferDecl{Name: "d", X: pt.M("p", val.x, "q", pt.A())}, typeofPrint(pt.V("d"))})...)
		emit("condition", cell, true, cat(pre, []pt.Stmt{pt.If{Conds: []pt.Expr{val.x}, Blocks: [][]pt.Stmt{{pt.Print(pt.S("y"))}}}})...)
		emit("while-condition", cell, true, cat(pre, []pt.Stmt{pt.While{Cond: val.x, Body: []pt.Stmt{pt.Break{}}}})...)
		emit("range", cell, true, cat(pre, []pt.Stmt{pt.For{Var: "e", Range: []pt.Expr{val.x}, Body: []pt.Stmt{typeofPrint(pt.V("e"))}}})...)
		emit("range2", cell, true, cat(pre, []pt.Stmt{pt.For{Var: "e", Range: []pt.Expr{pt.N(0), val.x}, Body: []pt.Stmt{pt.Print(pt.V("e"))}}})...)
		emit("index-of-array", cell, true, cat(pre, []pt.Stmt{pt.Print(pt.Index{X: pt.A(pt.N(1), pt.N(2)), I: val.x})})...)
		emit("index-of-string", cell, true, cat(pre, []pt.Stmt{pt.Print(pt.Index{X: pt.S("ab"), I: val.x})})...)
		emit("index-of-map", cell, true, cat(pre, []pt.Stmt{pt.Print(pt.Index{X: pt.M("a", pt.N(1)), I: val.x})})...)
		emit("indexed", cell, true, cat(pre, []pt.Stmt{typeofPrint(pt.Index{X: val.x, I: pt.N(0)})})...)
		// two levels down: the elements of the elements have the run-time representation their static type promises
		emit("indexed-twice", cell, true, cat(pre, []pt.Stmt{typeofPrint(pt.Index{X: pt.Index{X: val.x, I: pt.N(0)}, I: pt.N(0)}),
			pt.Print(pt.Bin("==", pt.Index{X: pt.Index{X: val.x, I: pt.N(0)}, I: pt.N(0)}, pt.Index{X: pt.Index{X: val.x, I: pt.N(-1)}, I: pt.N(0)}), pt.C("len", pt.Index{X: val.x, I: pt.N(-1)}))})...)
		emit("ranged-twice", cell, true, cat(pre, []pt.Stmt{pt.For{Var: "r", Range: []pt.Expr{val.x}, Body: []pt.Stmt{pt.For{Var: "e", Range: []pt.Expr{pt.V("r")}, Body: []pt.Stmt{typeofPrint(pt.V("e"))}}}}})...)
		emit("field-of-element", cell, true, cat(pre, []pt.Stmt{typeofPrint(pt.Dot{X: pt.Index{X: val.x, I: pt.N(0)}, Key: "a"}), pt.Print(pt.Bin("==", pt.Dot{X: pt.Index{X: val.x, I: pt.N(0)}, Key: "a"}, pt.Dot{X: pt.Index{X: val.x, I: pt.N(-1)}, Key: "a"}))})...)
		emit("indexed-by-string", cell, true, cat(pre, []pt.Stmt{typeofPrint(pt.Index{X: val.x, I: pt.S("k")})})...)
		emit("field", cell, true, cat(pre, []pt.Stmt{typeofPrint(pt.Dot{X: val.x, Key: "k"})})...)
		emit("sliced", cell, true, cat(pre, []pt.Stmt{typeofPrint(pt.Slice{X: val.x, Lo: pt.N(0)})})...)
		emit("slice-bound", cell, true, cat(pre, []pt.Stmt{pt.Print(pt.Slice{X: pt.A(pt.N(1)), Lo: val.x}), pt.Print(pt.Slice{X: pt.S("a"), Hi: val.x})})...)
		emit("assert-source", cell, true, cat(pre, []pt.Stmt{pt.Print(pt.Assert{X: val.x, T: pt.TNum})})...)
		emit("has", cell, true, cat(pre, []pt.Stmt{pt.Print(pt.C("has", val.x, pt.S("k")))})...)
		emit("del", cell, true, cat(pre, []pt.Stmt{pt.CallStmt{C: pt.C("del", val.x, pt.S("k"))}})...)
		emit("join", cell, true, cat(pre, []pt.Stmt{pt.Print(pt.C("join", val.x, pt.S(",")))})...)
		emit("len", cell, true, cat(pre, []pt.Stmt{pt.Print(pt.C("typeof", val.x))})...)
		emit("unary-minus", cell, true, cat(pre, []pt.Stmt{pt.Print(pt.Unary{Op: "-", X: val.x})})...)
		emit("unary-not", cell, true, cat(pre, []pt.Stmt{pt.Print(pt.Unary{Op: "!", X: val.x})})...)
	}
	for _, T := range types {
		x := pt.TypedDecl{Name: "x", T: pt.TAny}
		emit("assert-target", "any", true, x, typeofPrint(pt.Assert{X: pt.V("x"), T: T}))
		emit("assert-target", "elem", true, pt.TypedDecl{Name: "xs", T: pt.ArrOf(pt.TAny)}, typeofPrint(pt.Assert{X: pt.Index{X: pt.V("xs"), I: pt.N(0)}, T: T}))
	}
	// operator table: op x left x right, operands as variables and as literals
	ops := []string{"+", "-", "*", "/", "%", "<", "<=", ">", ">=", "==", "!=", "and", "or"}
	optypes := c04Types(1)
	optypes = append(optypes, pt.ArrOf(tNumArr), pt.ArrOf(pt.ArrOf(pt.TAny)))
	type operand struct {
		name string
		pre  []pt.Stmt
		x    pt.Expr
	}
	var operands []operand
	for i, t := range optypes {
		operands = append(operands, operand{"var:" + t.String(), []pt.Stmt{pt.TypedDecl{Name: fmt.Sprintf("o%d", i), T: t}}, pt.V(fmt.Sprintf("o%d", i))})
		if l := c04Lit(t); l != nil {
			operands = append(operands, operand{"lit:" + t.String(), nil, l})
		}
	}
	operands = append(operands, operand{"empty:[]", nil, pt.A()}, operand{"empty:{}", nil, pt.M()}, operand{"empty:[[]]", nil, pt.A(pt.A())},
		operand{"empty:[{}]", nil, pt.A(pt.M())}, operand{"empty:[[] [[]]]", nil, pt.A(pt.A(), pt.A(pt.A()))}, operand{"empty:{k:[]}", nil, pt.M("k", pt.A())})
	for _, op := range ops {
		for _, l := range operands {
			for _, r := range operands {
				if l.name == r.name && l.pre != nil {
					// same variable on both sides: declare once
					emit("operator", op, true, cat(l.pre, []pt.Stmt{pt.InferDecl{Name: "res", X: pt.Bin(op, l.x, r.x)}, typeofPrint(pt.V("res"))})...)
					continue
				}
				emit("operator", op, true, cat(l.pre, r.pre, []pt.Stmt{pt.InferDecl{Name: "res", X: pt.Bin(op, l.x, r.x)}, typeofPrint(pt.V("res"))})...)
			}
		}
	}
}

// normEmptyTypes maps the two documented spellings of the type of an untyped empty composite onto one.
func normEmptyTypes(s string) string {
	s = strings.ReplaceAll(s, "[]any", "[]")
	return strings.ReplaceAll(s, "{}any", "{}")
}

func indexByte(s string, b byte) int {
	for i := 0; i < len(s); i++ {
		if s[i] == b {
			return i
		}
	}
	return -1
}

// checkC04 judges one cell.
// c04ManyErrors is a prefix of 70 lines with one parse error each.
var c04ManyErrors = strings.Repeat(")\n", 70)

func checkC04(w *fw.Worker, sub, src string, prog *pt.Prog) *fw.Violation {
	in := DiffInput{Src: src}
	err := ref.Check(prog)
	prs, perrs, gp := run.Parse(src)
	if gp != "" {
		return &fw.Violation{Sub: sub, Signature: "gopanic:" + run.PanicSite(gp) + ":" + sub, What: "parser panicked", Input: in, Observed: gp}
	}
	count := func(k string) {
		if w != nil {
			w.Count(k, 1)
		}
	}
	// the same program behind many earlier errors: the verdict of the type checker on this program must not depend on how many
	// errors were reported before it (nothing may be skipped or assumed once a list is long) - here: still no crash, still rejected
	if ps2, _, gp2 := run.Parse(c04ManyErrors + src); gp2 != "" {
		return &fw.Violation{Sub: sub, Signature: "gopanic-after-many-errors:" + run.PanicSite(gp2) + ":" + sub, What: "parser panicked on this program when 70 erroneous lines precede it", Input: DiffInput{Src: c04ManyErrors + src}, Observed: gp2}
	} else if ps2 != nil {
		return &fw.Violation{Sub: sub, Signature: "accepted-after-many-errors:" + sub, What: "a source with 70 erroneous lines was accepted", Input: DiffInput{Src: c04ManyErrors + src}, Expected: "rejected", Observed: "accepted"}
	}
	count("after-many-errors")
	switch e := err.(type) {
	case nil:
		count("ref-accept")
		if prs == nil {
			return &fw.Violation{Sub: sub, Signature: "spec-accepts-parser-rejects:" + sub, What: "the specification's rules accept this program, the parser rejects it", Input: in,
				Expected: "accepted", Observed: perrs.Error()}
		}
		v, _ := diffProg(w, sub, src, prog, nil)
		if v != nil && v.Signature == "trace-differs" && normEmptyTypes(v.Expected) == normEmptyTypes(v.Observed) {
			// docs/spec.md §Typeof documents both "[]"/"{}" (text) and "[]any"/"{}any" (examples) for untyped empty composites
			count("latitude-typeof-empty")
			return nil
		}
		if v != nil {
			v.Signature = v.Signature + ":" + sub
		}
		return v
	case *ref.LatitudeErr:
		count("latitude")
		return nil
	default:
		count("ref-reject")
		if prs != nil {
			return &fw.Violation{Sub: sub, Signature: "spec-rejects-parser-accepts:" + sub, What: "the specification's rules reject this program, the parser accepts it", Input: in,
				Expected: "rejected: " + e.Error(), Observed: "accepted"}
		}
	}
	return nil
}
