package checks

import (
	"bytes"
	"encoding/json"
	"fmt"
	"os"
	"os/exec"
	"path/filepath"
	"regexp"
	"sort"
	"strconv"
	"strings"
	"sync"
	"syscall"
	"time"

	"verif/mc/fw"
	"verif/mc/run"
)

// C18 — evy fmt never damages a source file and --check tells the truth
// (fault enumeration on the real binary with strace).

func init() {
	fw.Register(&fw.Check{
		ID:    "C18",
		Level: "fault_enumeration",
		Rule: "configurations = inputs {formatted, unformatted, unparsable, empty, 150 KB unformatted} x modes {-w on an .evy file, -w on a .txtar with evy members, -w on two files of which the " +
			"second is unparsable, -c on a file, -c on the file followed by a formatted file, -c / -w on archives whose last member is already formatted, -c / -w on an archive whose last evy member lacks its final newline, -c on an archive whose last text member lacks it, -c on stdin, no flag} x permission bits {0644, 0755, 0666, 0600, 0444, 0777, 0664 (quick: 0644, 0755, 0666)} under umask 022. For each configuration: a baseline run under strace -f -y " +
			"collects the ordered list L of file-system syscalls that touch the scratch directory (by path or by descriptor); then for EVERY element of L and every errno in {ENOSPC, EIO, " +
			"EACCES} one run with that call failing, and for EVERY element of L one run killed (SIGKILL) on entry to that call. Coverage is verified from the strace log ((INJECTED) / killed " +
			"marker on the intended call); an element that cannot be hit after retries is listed as a gap and makes the run exhaustive:false. Oracle after every run: target bytes = original " +
			"or fully formatted; mode bits unchanged; unparsable input => bytes unchanged and exit != 0; an injected failure exits != 0 unless the target already holds the formatted text; -c " +
			"exits 0 iff input == Format(input) (an archive: iff it equals, byte for byte, what -w would write, including the final newline txtar completes) and modifies nothing. After every killed or failed run of -w on an .evy file the file is edited (shorter formatted text) and formatted again, undisturbed, in the same directory: it must hold exactly the new formatted text. Non-trivial = runs with an injected fault.",
		Assumptions: []string{"the process is killed, the machine is not: data written before the kill is in the page cache and counts as written (no power-loss model)",
			"strace can fake a syscall's return value but cannot make the kernel perform a partial write", "faults in non-file syscalls are not injected"},
		TrustedBase:   []string{"strace 6.1 -e inject", "Program.Format of the working tree computes the expected formatted text (its correctness is C06/C07's business)"},
		Run:           runC18,
		Serial:        true,
		Watchdog:      10 * time.Minute,
		DeadlineQuick: 6 * time.Minute, DeadlineThorough: 25 * time.Minute,
		Replay: func(sub string, in json.RawMessage) *fw.Violation {
			var d c18Case
			json.Unmarshal(in, &d)
			v, _ := c18Run(d, 5)
			return v
		},
		Vacuity: func(m *fw.Result) string {
			if m.Counters["faults-injected"] < 300 || m.Counters["kills-injected"] < 80 || m.Counters["configs"] < 15 {
				return fmt.Sprint("too few injected faults: ", m.Counters)
			}
			return ""
		},
	})
}

type c18Config struct {
	Input string `json:"input"` // formatted | unformatted | unparsable | empty | large
	Mode  string `json:"mode"`  // w | w-txtar | w-two | c | c-stdin | none
	Perm  uint32 `json:"perm"`
}

type c18Case struct {
	Config c18Config `json:"config"`
	// Fault: "" (baseline), "error:<errno>" or "kill"
	Fault   string `json:"fault"`
	Syscall string `json:"syscall"`
	Index   int    `json:"index"`             // index into the baseline list L
	Desc    string `json:"desc"`              // the baseline call, for the reader
	Ordinal int    `json:"ordinal,omitempty"` // n-th call of Syscall by its thread in the baseline (0: take a fresh baseline)
}

func c18Content(kind string) string {
	switch kind {
	case "formatted":
		return "x := 1\nprint x\n"
	case "unformatted":
		return "x:=1\nif x>0\nprint   x // c\n  end\n"
	case "unparsable":
		return "x := \nprint x y\n"
	case "empty":
		return ""
	case "large":
		var sb strings.Builder
		sb.WriteString("x:=0\n")
		for i := 0; i < 7000; i++ {
			fmt.Fprintf(&sb, "x   =x+%d // line %d\n", i, i)
		}
		return sb.String()
	}
	panic(kind)
}

func formatted(src string) (string, bool) {
	prog, _, _ := run.Parse(src)
	if prog == nil {
		return "", false
	}
	return prog.Format(), true
}

type c18Files struct {
	dir   string
	files map[string]string // name -> original content
	args  []string
	stdin string
}

func c18Setup(cfg c18Config) (*c18Files, error) {
	dir, err := os.MkdirTemp(os.Getenv("VERIF_BUILD_DIR"), "fmt-")
	if err != nil {
		return nil, err
	}
	f := &c18Files{dir: dir, files: map[string]string{}}
	content := c18Content(cfg.Input)
	write := func(name, data string) error {
		f.files[name] = data
		p := filepath.Join(dir, name)
		if err := os.WriteFile(p, []byte(data), 0o644); err != nil {
			return err
		}
		return os.Chmod(p, os.FileMode(cfg.Perm))
	}
	switch cfg.Mode {
	case "w":
		err = write("a.evy", content)
		f.args = []string{"fmt", "-w", "a.evy"}
	case "w-txtar":
		err = write("a.txtar", "comment\n-- one.evy --\n"+content+"-- note.txt --\nx:=1 stays\n-- two.evy --\ny:=2\nprint y\n")
		f.args = []string{"fmt", "-w", "a.txtar"}
	case "w-txtar-lastok", "c-txtar-lastok": // the member under test comes first, the last member is already formatted
		err = write("a.txtar", "comment\n-- one.evy --\n"+content+"-- note.txt --\nx:=1 stays\n-- two.evy --\ny := 2\nprint y\n")
		f.args = []string{"fmt", "-w", "a.txtar"}
		if cfg.Mode == "c-txtar-lastok" {
			f.args = []string{"fmt", "-c", "a.txtar"}
		}
	case "c-txtar-nonl", "w-txtar-nonl": // the evy member comes last and lacks its final newline (txtar.Parse completes it)
		err = write("a.txtar", "comment\n-- note.txt --\nx:=1 stays\n-- one.evy --\n"+strings.TrimSuffix(content, "\n"))
		f.args = []string{"fmt", "-c", "a.txtar"}
		if cfg.Mode == "w-txtar-nonl" {
			f.args = []string{"fmt", "-w", "a.txtar"}
		}
	case "c-txtar-textnonl": // the evy member is the input under test, the last (non-evy) member lacks its final newline
		err = write("a.txtar", "comment\n-- one.evy --\n"+content+"-- note.txt --\nno final newline")
		f.args = []string{"fmt", "-c", "a.txtar"}
	case "w-two":
		if err = write("a.evy", content); err == nil {
			err = write("b.evy", c18Content("unparsable"))
		}
		f.args = []string{"fmt", "-w", "a.evy", "b.evy"}
	case "c":
		err = write("a.evy", content)
		f.args = []string{"fmt", "-c", "a.evy"}
	case "c-two": // the file under test followed by a formatted one: the verdict is about all files, not the last
		if err = write("a.evy", content); err == nil {
			err = write("z.evy", c18Content("formatted"))
		}
		f.args = []string{"fmt", "-c", "a.evy", "z.evy"}
	case "c-stdin":
		err = write("other.evy", "x:=1\nprint x\n")
		f.args = []string{"fmt", "-c"}
		f.stdin = content
	case "none":
		err = write("a.evy", content)
		f.args = []string{"fmt", "a.evy"}
	}
	return f, err
}

var straceSyscalls = "openat,read,write,close,fstat,newfstatat,renameat,renameat2,rename,fchmod,fchmodat,chmod,unlinkat,ftruncate,fsync,pread64,pwrite64,fchown,lseek"

type straceCall struct {
	tid, name, line string
	ordinal         int // n-th call of this syscall by this thread (1-based)
	injected        bool
	killed          bool
}

var straceLine = regexp.MustCompile(`^(\d+)\s+([a-z0-9_]+)\((.*)$`)
var straceResumed = regexp.MustCompile(`^(\d+)\s+<\.\.\. ([a-z0-9_]+) resumed>(.*)$`)

// parseStrace returns the syscalls of the log that touch dir, in order, with per-thread ordinals.
func parseStrace(log, dir string) (calls []straceCall, injectedTotal int) {
	ord := map[string]int{}
	pending := map[string]int{} // tid+name -> index in calls of an unfinished relevant call
	for _, line := range strings.Split(log, "\n") {
		if m := straceResumed.FindStringSubmatch(line); m != nil {
			if strings.Contains(m[3], "(INJECTED)") {
				injectedTotal++
				if i, ok := pending[m[1]+m[2]]; ok {
					calls[i].injected = true
				}
			}
			delete(pending, m[1]+m[2])
			continue
		}
		m := straceLine.FindStringSubmatch(line)
		if m == nil {
			continue
		}
		tid, name, rest := m[1], m[2], m[3]
		ord[tid+name]++
		if strings.Contains(rest, "(INJECTED)") {
			injectedTotal++
		}
		relevant := false
		switch name {
		case "openat", "newfstatat", "renameat", "renameat2", "unlinkat", "fchmodat":
			// path argument: relative to the scratch dir (cwd) or absolute inside it
			if q := strings.Index(rest, "\""); q >= 0 {
				path := rest[q+1:]
				if e := strings.Index(path, "\""); e >= 0 {
					path = path[:e]
				}
				relevant = !strings.HasPrefix(path, "/") || strings.HasPrefix(path, dir)
			}
		default:
			relevant = strings.Contains(rest, "<"+dir+"/")
		}
		if !relevant {
			continue
		}
		c := straceCall{tid: tid, name: name, line: fw.Trunc(strings.TrimSpace(line), 160), ordinal: ord[tid+name], injected: strings.Contains(rest, "(INJECTED)")}
		calls = append(calls, c)
		if strings.Contains(rest, "<unfinished") {
			pending[tid+name] = len(calls) - 1
		}
	}
	return calls, injectedTotal
}

type straceResult struct {
	exit     int
	killed   bool
	stdout   string
	stderr   string
	calls    []straceCall
	injected int
	log      string
}

func straceRun(f *c18Files, inject string) (*straceResult, error) {
	logf := filepath.Join(f.dir, "..", filepath.Base(f.dir)+".strace")
	defer os.Remove(logf)
	args := []string{"-f", "-y", "-qq", "-o", logf, "-e", "trace=" + straceSyscalls}
	if inject != "" {
		args = append(args, "-e", "inject="+inject)
	}
	args = append(args, os.Getenv("VERIF_EVY"))
	args = append(args, f.args...)
	cmd := exec.Command("strace", args...)
	cmd.Dir = f.dir
	cmd.Env = append(os.Environ(), "GOMAXPROCS=1", "NO_COLOR=1")
	cmd.Stdin = strings.NewReader(f.stdin)
	var so, se bytes.Buffer
	cmd.Stdout, cmd.Stderr = &so, &se
	err := cmd.Run()
	res := &straceResult{stdout: so.String(), stderr: se.String()}
	if err != nil {
		ee, ok := err.(*exec.ExitError)
		if !ok {
			return nil, err
		}
		res.exit = ee.ExitCode()
		if res.exit == -1 || res.exit == 137 || strings.Contains(se.String(), "killed by SIGKILL") {
			res.killed = true
		}
	}
	b, _ := os.ReadFile(logf)
	res.log = string(b)
	res.calls, res.injected = parseStrace(res.log, f.dir)
	if strings.Contains(res.log, "+++ killed by SIGKILL +++") {
		res.killed = true
	}
	return res, nil
}

// c18Run executes one case (baseline or one fault) and applies the oracle. hit=false if the intended call was not hit.
func c18Run(c c18Case, retries int) (v *fw.Violation, hit bool) {
	viol := func(sig, what, exp, obs string) *fw.Violation {
		return &fw.Violation{Sub: "fmt", Signature: sig + ":" + c.Config.Mode, What: what, Input: c, Expected: exp, Observed: obs}
	}
	for attempt := 0; attempt <= retries; attempt++ {
		var f *c18Files
		var err error
		target := straceCall{name: c.Syscall, ordinal: c.Ordinal}
		if c.Fault == "" || c.Ordinal == 0 || attempt > 0 {
			f, err = c18Setup(c.Config)
			if err != nil {
				panic(err)
			}
			base, err := straceRun(f, "")
			if err != nil {
				os.RemoveAll(f.dir)
				panic("strace cannot run: " + err.Error())
			}
			if c.Fault == "" {
				v := c18Oracle(c, f, base, viol)
				os.RemoveAll(f.dir)
				return v, true
			}
			os.RemoveAll(f.dir)
			if c.Index >= len(base.calls) {
				continue
			}
			target = base.calls[c.Index]
		}
		f, err = c18Setup(c.Config)
		if err != nil {
			panic(err)
		}
		spec := target.name + ":when=" + strconv.Itoa(target.ordinal)
		if c.Fault == "kill" {
			spec += ":signal=SIGKILL"
		} else {
			spec += ":error=" + strings.TrimPrefix(c.Fault, "error:")
		}
		res, err := straceRun(f, spec)
		if err != nil {
			os.RemoveAll(f.dir)
			panic(err)
		}
		// coverage: the fault landed on the intended call and nowhere else
		ok := false
		if c.Fault == "kill" {
			// killed on entry: the killed call is the last one in the log and corresponds to baseline position Index
			ok = res.killed && len(res.calls) == c.Index+1 && res.calls[c.Index].name == target.name
		} else {
			ok = res.injected == 1 && c.Index < len(res.calls) && res.calls[c.Index].injected && res.calls[c.Index].name == target.name
		}
		if !ok {
			os.RemoveAll(f.dir)
			continue
		}
		v := c18Oracle(c, f, res, viol)
		if v == nil && c.Fault != "" && c.Config.Mode == "w" {
			v = c18Followup(c, f, viol)
		}
		os.RemoveAll(f.dir)
		return v, true
	}
	return nil, false
}

// c18Followup: whatever a killed or failed run left behind in the directory (a temporary file, say), the next undisturbed
// evy fmt -w on the same file - edited in the meantime so that its formatted text is shorter - formats it completely.
func c18Followup(c c18Case, f *c18Files, viol func(sig, what, exp, obs string) *fw.Violation) *fw.Violation {
	p := filepath.Join(f.dir, "a.evy")
	const edited, want = "y:=2\nprint   y\n", "y := 2\nprint y\n"
	if err := os.WriteFile(p, []byte(edited), 0o644); err != nil {
		return nil // the scenario cannot be set up (e.g. read-only mode bits): nothing to judge
	}
	os.Chmod(p, os.FileMode(c.Config.Perm)) //nolint:errcheck
	cmd := exec.Command(os.Getenv("VERIF_EVY"), "fmt", "-w", "a.evy")
	cmd.Dir = f.dir
	cmd.Env = append(os.Environ(), "NO_COLOR=1")
	out, err := cmd.CombinedOutput()
	b, _ := os.ReadFile(p)
	if err != nil || string(b) != want {
		return viol("next-run-after-fault", "the next undisturbed evy fmt -w after a killed or failed one (file edited in between) does not format the file completely",
			fmt.Sprintf("exit 0, %q", want), fmt.Sprintf("%v %s, %q", err, fw.Trunc(strings.ReplaceAll(string(out), f.dir, "<dir>"), 200), fw.Trunc(string(b), 300)))
	}
	return nil
}

func c18Oracle(c c18Case, f *c18Files, res *straceResult, viol func(sig, what, exp, obs string) *fw.Violation) *fw.Violation {
	cfg := c.Config
	allFormatted := true
	for name, orig := range f.files {
		p := filepath.Join(f.dir, name)
		b, err := os.ReadFile(p)
		if err != nil {
			return viol("target-missing", "the target file is gone or unreadable after the run", "original or formatted content", err.Error())
		}
		want, parses := c18Formatted(name, orig)
		got := string(b)
		switch {
		case got == orig:
			if !parses || want != orig {
				allFormatted = allFormatted && (parses && want == orig)
			}
		case parses && got == want:
		default:
			return viol("target-damaged", "the file holds neither its complete original text nor the complete formatted text", fmt.Sprintf("original (%d bytes) or formatted (%d bytes)", len(orig), len(want)),
				fmt.Sprintf("%d bytes: %q", len(got), fw.Trunc(got, 200)))
		}
		if !parses && got != orig {
			return viol("unparsable-modified", "a file that does not parse was modified", "untouched", fw.Trunc(got, 200))
		}
		if parses && got != want {
			allFormatted = false
		}
		if fi, err := os.Stat(p); err == nil && uint32(fi.Mode().Perm()) != cfg.Perm {
			return viol("mode-changed", "the permission bits of the file changed", fmt.Sprintf("%o", cfg.Perm), fmt.Sprintf("%o", fi.Mode().Perm()))
		}
	}
	writeMode := strings.HasPrefix(cfg.Mode, "w")
	if !writeMode {
		// nothing may be modified or created
		entries, _ := os.ReadDir(f.dir)
		if len(entries) != len(f.files) {
			var names []string
			for _, e := range entries {
				names = append(names, e.Name())
			}
			return viol("check-created-files", "a read-only mode created or removed files", fmt.Sprint(len(f.files), " files"), strings.Join(names, " "))
		}
		for name, orig := range f.files {
			if b, _ := os.ReadFile(filepath.Join(f.dir, name)); string(b) != orig {
				return viol("check-modified", "a read-only mode modified a file", orig, string(b))
			}
		}
	}
	if res.killed {
		return nil
	}
	// exit status
	input := c18Content(cfg.Input)
	want, parses := formatted(input)
	switch cfg.Mode {
	case "c", "c-stdin", "c-two", "c-txtar-lastok", "c-txtar-nonl", "c-txtar-textnonl":
		if orig, isArchive := f.files["a.txtar"]; isArchive {
			// an archive is in formatted form exactly when fmt -w would write it back byte for byte
			want, parses = c18Formatted("a.txtar", orig)
			input = orig
		}
		if c.Fault == "" {
			wantExit := 1
			if parses && want == input {
				wantExit = 0
			}
			if (res.exit == 0) != (wantExit == 0) {
				return viol("check-exit-status", "evy fmt -c exit status", fmt.Sprint("exit 0 iff formatted: want ", wantExit), fmt.Sprint("exit ", res.exit, " stderr ", fw.Trunc(res.stderr, 200)))
			}
			if res.stdout != "" {
				return viol("check-prints", "evy fmt -c wrote to stdout", "", res.stdout)
			}
		} else if res.exit == 0 && !(parses && want == input) {
			return viol("check-exit-status-under-fault", "evy fmt -c reported success for input that is not formatted", "non-zero", "0")
		}
	case "w", "w-txtar", "w-two", "w-txtar-lastok", "w-txtar-nonl":
		anyUnparsable := !parses || cfg.Mode == "w-two"
		if c.Fault == "" {
			if anyUnparsable && res.exit == 0 {
				return viol("unparsable-exit-zero", "a file that does not parse must give a non-zero exit status", "non-zero", "0")
			}
			if !anyUnparsable && (res.exit != 0 || !allFormatted) {
				return viol("write-failed", "evy fmt -w without faults did not format the file", "exit 0, file formatted", fmt.Sprint("exit ", res.exit, " ", fw.Trunc(res.stderr, 200)))
			}
		} else if res.exit == 0 && !allFormatted && !anyUnparsable {
			return viol("fault-swallowed", "a failed file operation was not reported: exit status 0 although the file is not formatted", "non-zero exit", "exit 0")
		}
	case "none":
		if c.Fault == "" && parses && (res.exit != 0) {
			return viol("fmt-exit", "evy fmt without flags failed on a valid file", "exit 0", fmt.Sprint(res.exit))
		}
	}
	return nil
}

// c18Formatted returns the expected formatted content of a scratch file.
func c18Formatted(name, orig string) (string, bool) {
	if strings.HasSuffix(name, ".txtar") {
		// members: format each evy member; any unparsable member makes the archive untouchable
		// (txtar.Format completes the missing final newline of the comment and of every non-empty member)
		fixNL := func(s string) string {
			if s != "" && !strings.HasSuffix(s, "\n") {
				return s + "\n"
			}
			return s
		}
		parts := strings.Split(orig, "-- ")
		out := fixNL(parts[0])
		for _, p := range parts[1:] {
			nl := strings.Index(p, "\n")
			header, body := p[:nl+1], fixNL(p[nl+1:])
			fname := strings.TrimSuffix(strings.TrimSpace(header), " --")
			if strings.HasSuffix(fname, ".evy") {
				fb, ok := formatted(body)
				if !ok {
					return "", false
				}
				body = fb
			}
			out += "-- " + header + body
		}
		return out, true
	}
	return formatted(orig)
}

func runC18(w *fw.Worker) {
	// the child inherits umask 022, so a mode with group/other write bits (0666) is only kept if it is set explicitly
	syscall.Umask(0o022)
	perms := []uint32{0o644, 0o755, 0o666}
	if !w.Quick() {
		perms = []uint32{0o644, 0o755, 0o666, 0o600, 0o444, 0o777, 0o664}
	}
	var cfgs []c18Config
	for _, in := range []string{"unformatted", "formatted", "unparsable", "empty", "large"} {
		for _, mode := range []string{"w", "w-txtar", "w-txtar-lastok", "w-txtar-nonl", "w-two", "c", "c-two", "c-txtar-lastok", "c-txtar-nonl", "c-txtar-textnonl", "c-stdin", "none"} {
			for pi, perm := range perms {
				if pi > 0 && (mode != "w" && mode != "w-txtar" || w.Quick() && in != "unformatted") {
					continue // permission variants matter where a file is replaced
				}
				if in == "large" && mode != "w" && mode != "c" {
					continue
				}
				if w.Quick() && (strings.HasSuffix(mode, "-lastok") || strings.HasSuffix(mode, "nonl")) && in != "unformatted" && in != "formatted" {
					continue // quick tier: the archive variants for the two inputs that decide the verdict
				}
				cfgs = append(cfgs, c18Config{in, mode, perm})
			}
		}
	}
	errnos := []string{"ENOSPC", "EIO", "EACCES"}
	type job struct {
		c c18Case
	}
	var jobs []c18Case
	var gaps []string
	for _, cfg := range cfgs {
		w.Count("configs", 1)
		// baseline: the list L
		f, err := c18Setup(cfg)
		if err != nil {
			panic(err)
		}
		base, err := straceRun(f, "")
		os.RemoveAll(f.dir)
		if err != nil {
			panic("strace cannot run: " + err.Error())
		}
		jobs = append(jobs, c18Case{Config: cfg})
		for i, call := range base.calls {
			for _, e := range errnos {
				jobs = append(jobs, c18Case{Config: cfg, Fault: "error:" + e, Syscall: call.name, Index: i, Desc: call.line, Ordinal: call.ordinal})
			}
			jobs = append(jobs, c18Case{Config: cfg, Fault: "kill", Syscall: call.name, Index: i, Desc: call.line, Ordinal: call.ordinal})
		}
		if len(cfgs) > 0 && cfg == cfgs[0] {
			var l []string
			for _, c := range base.calls {
				l = append(l, c.line)
			}
			w.Sample(map[string]any{"config": cfg, "L": l})
		}
	}
	var mu sync.Mutex
	var wg sync.WaitGroup
	var gapJobs []c18Case
	// record books one executed case (called with mu held during the parallel phase)
	record := func(j c18Case, v *fw.Violation, hit bool) {
		w.Res.Evaluations++
		w.Res.Distinct++
		if j.Fault != "" {
			w.Res.Nontrivial++
		}
		switch {
		case !hit:
			gaps = append(gaps, fmt.Sprintf("%+v %s #%d %s", j.Config, j.Fault, j.Index, j.Syscall))
			w.Count("gaps", 1)
		case j.Fault == "kill":
			w.Count("kills-injected", 1)
		case j.Fault != "":
			w.Count("faults-injected", 1)
			w.Outcome(j.Syscall + ":" + j.Fault)
		default:
			w.Count("baselines", 1)
		}
		if v != nil {
			// confirm by re-running the same case
			for k := 0; k < 2; k++ {
				if v2, hit2 := c18Run(j, 6); !hit2 || v2 == nil || v2.Signature != v.Signature {
					w.Internal("HARNESS-NONDETERMINISM: C18 violation " + v.Signature + " did not reproduce for " + fmt.Sprintf("%+v", j))
					return
				}
			}
			w.AddViolation(v)
		}
		if j.Fault == "kill" && j.Index == 3 {
			w.Sample(j)
		}
	}
	sem := make(chan struct{}, 14)
	for _, j := range jobs {
		if w.Expired() {
			break
		}
		j := j
		wg.Add(1)
		sem <- struct{}{}
		go func() {
			defer wg.Done()
			defer func() { <-sem }()
			v, hit := c18Run(j, 6)
			mu.Lock()
			defer mu.Unlock()
			if !hit {
				gapJobs = append(gapJobs, j) // tried again below, one at a time on a quiet machine
				return
			}
			record(j, v, true)
		}()
	}
	wg.Wait()
	for _, j := range gapJobs {
		v, hit := c18Run(j, 25)
		record(j, v, hit)
	}
	if len(gaps) > 0 {
		sort.Strings(gaps)
		w.NotExhaustive(fmt.Sprintf("%d of %d fault points could not be hit on the intended call after retries (thread migration): %s", len(gaps), len(jobs), fw.Trunc(strings.Join(gaps, "; "), 1500)))
	}
}
