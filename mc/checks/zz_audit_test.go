//go:build verif

package checks

import (
	"testing"

	"verif/mc/corpus"
	"verif/mc/run"
)

// TestHandWrittenProgramsParse lists the hand-written programs the parser rejects. Lists that contain invalid programs on purpose
// (C08 error-order programs) are only logged; every other list must be accepted completely, otherwise a program would be skipped silently.
func TestHandWrittenProgramsParse(t *testing.T) {
	must := func(list string, srcs []string) {
		for _, s := range srcs {
			if prog, errs, gp := run.Parse(s); prog == nil {
				t.Errorf("%s: rejected: %v %s\n%s", list, errs, gp, s)
			}
		}
	}
	must("corpus.Seeds", corpus.Seeds)
	var sp []string
	for _, s := range c14Specials() {
		sp = append(sp, s.Src)
	}
	must("c14Specials", sp)
	var fx []string
	for _, s := range c16Fixed {
		fx = append(fx, c16UseGlobals(s))
	}
	must("c16Fixed", fx)
	for _, s := range c08Programs {
		if prog, errs, _ := run.Parse(s); prog == nil {
			t.Logf("c08Programs (may be intended): %v\n%s", errs, s)
		}
	}
}
