package checks

import (
	"encoding/json"
	"fmt"
	"math"
	"sort"
	"strconv"
	"strings"
	"time"

	"verif/mc/corpus"
	"verif/mc/fw"
	"verif/mc/pt"
	"verif/mc/ref"
	"verif/mc/run"
)

// C13 — built-in functions do what their documentation says.

func init() {
	fw.Register(&fw.Check{
		ID:    "C13",
		Level: "exploration",
		Rule: "(a) every non-graphics built-in x all argument tuples from value classes (nums incl. 2^31, 2^63, 1e300, NaN, +-Inf, fractions; strings incl. empty, non-ASCII, format characters, " +
			"numeric look-alikes; arrays/maps incl. empty, nested, any-typed, non-identifier keys) compared with the documented behaviour (reference built-ins written from docs/builtins.md: " +
			"rune-wise string functions, conversions with the err/errmsg protocol, formatting verbs, typeof, test/exit/panic outcomes); (b) the err/errmsg protocol as explicit-state search: " +
			"all histories to depth 4 (5) over {str2num ok/bad/overflow, str2bool ok/bad, user assignments to err/errmsg, copies}; (c) all sequences of <= 3 test/exit/panic calls x FailFast x " +
			"NoTestSummary: result, messages, counts, summary, and the evy binary's exit status; (d) rand n / rand1 for every n class x 8 seeds x 64 draws: integer in [0,n) resp. [0,1); " +
			"(e) sprint/print/printf/sprintf/repr/join over every value shape and every documented verb x flag x width x precision; (f) all documented examples with a recorded output. " +
			"Non-trivial = all cases except duplicates.",
		Assumptions: []string{"math functions are compared against Go's math package (the documentation defines them as the usual mathematical functions)",
			"behaviour the documentation does not define (undocumented verbs, wrong argument counts for format strings, %v of numbers whose shortest form differs from print's, replace with an empty pattern) is not judged",
			"rand is judged on 64 draws of 8 seeds per class; the distribution is math/rand's"},
		TrustedBase:   []string{"reference built-ins /verif/mc/ref/builtins.go", "strconv / fmt for digit formatting", "math"},
		Run:           runC13,
		Replay:        replayC13,
		DeadlineQuick: 5 * time.Minute, DeadlineThorough: 25 * time.Minute,
		Vacuity: func(m *fw.Result) string {
			for name := range c13Builtins() {
				if m.Counters["builtin:"+name] == 0 {
					return "built-in never compared: " + name
				}
			}
			if m.Counters["doc-examples"] < 40 || m.Counters["states"] < 4 {
				return fmt.Sprint("doc examples / err states too few: ", m.Counters)
			}
			return ""
		},
	})
}

type c13Input struct {
	Src           string   `json:"src"`
	Inputs        []string `json:"inputs,omitempty"`
	FailFast      bool     `json:"fail_fast,omitempty"`
	NoTestSummary bool     `json:"no_test_summary,omitempty"`
	Want          string   `json:"want,omitempty"` // documented output (doc examples)
	Kind          string   `json:"kind"`
	Seed          int64    `json:"seed,omitempty"`
	N             float64  `json:"n,omitempty"`
}

func c13Builtins() map[string]bool {
	m := map[string]bool{}
	for _, n := range []string{"print", "printf", "sprint", "sprintf", "repr", "join", "split", "upper", "lower", "index", "startswith", "endswith", "trim", "replace",
		"str2num", "str2bool", "typeof", "len", "has", "del", "exit", "panic", "test", "rand", "rand1", "min", "max", "abs", "floor", "ceil", "round", "pow", "log", "sqrt", "sin", "cos", "atan2", "read", "cls", "sleep"} {
		m[n] = true
	}
	return m
}

var c13Nums = []float64{0, 1, -1, 0.5, -0.5, 2.5, -2.5, 3, 10, 2147483647, 2147483648, 9223372036854775808, 1e300, -1e300, math.NaN(), math.Inf(1), math.Inf(-1)}
var c13Strs = []string{"", "a", "ab", "äb", "ä€😀", "a,b,,c", "%s%d%", "\n", " a ", "true", "1", "-2.5", "1e3", "1e999", " 1", "0x10", "abcabc", "ABC def"}

func runC13(w *fw.Worker) {
	do := func(kind string, stmts []pt.Stmt, o c13Input) {
		prog := &pt.Prog{Stmts: stmts}
		o.Src, o.Kind = pt.Source(prog), kind
		w.Case(o.Src+fmt.Sprint(o.FailFast, o.NoTestSummary), func() *fw.Violation {
			w.Nontrivial()
			v := checkC13(w, o, prog)
			if len(o.Src) < 70 {
				w.Sample(o)
			}
			return v
		})
	}
	obs := func(call pt.Call) []pt.Stmt {
		if ref.BuiltinSigs[call.Name].Ret.K == pt.None {
			return []pt.Stmt{pt.CallStmt{C: call}, pt.Print(pt.S("after"), pt.V("err"), pt.V("errmsg"))}
		}
		return []pt.Stmt{pt.InferDecl{Name: "r", X: call}, pt.Print(pt.S("r"), pt.V("r"), pt.C("typeof", pt.V("r")), pt.C("repr", pt.V("r")), pt.V("err"), pt.V("errmsg"))}
	}
	numE := func(f float64) pt.Expr { return numExpr(f) }
	// (a) functions over numbers
	for _, f := range []string{"abs", "floor", "ceil", "round", "log", "sqrt", "sin", "cos", "exit", "sleep", "rand"} {
		for _, x := range c13Nums {
			if f == "rand" {
				continue // (d)
			}
			do("num1", obs(pt.C(f, numE(x))), c13Input{})
		}
	}
	for _, f := range []string{"min", "max", "pow", "atan2"} {
		for _, x := range c13Nums {
			for _, y := range c13Nums {
				do("num2", obs(pt.C(f, numE(x), numE(y))), c13Input{})
			}
		}
	}
	// string functions
	for _, f := range []string{"upper", "lower", "str2num", "str2bool", "panic"} {
		for _, s := range c13Strs {
			do("str1", obs(pt.C(f, pt.S(s))), c13Input{})
		}
	}
	for _, f := range []string{"split", "index", "startswith", "endswith", "trim"} {
		for _, s := range c13Strs {
			for _, t := range c13Strs {
				do("str2", obs(pt.C(f, pt.S(s), pt.S(t))), c13Input{})
			}
		}
	}
	small := []string{"", "a", "ab", "äb", "a,b,,c", "abcabc", "%s"}
	for _, s := range c13Strs {
		for _, t := range small {
			for _, u := range small {
				do("replace", obs(pt.C("replace", pt.S(s), pt.S(t), pt.S(u))), c13Input{})
			}
		}
	}
	// values of every shape: len typeof sprint print repr join has del
	shapes := []pt.Expr{pt.N(0), pt.N(-2.5), pt.N(1e21), pt.N(1e-7), numE(math.NaN()), numE(math.Inf(1)), pt.S(""), pt.S("ä€😀"), pt.S("a \"q\" \\ \n\t"), pt.B(true), pt.B(false),
		pt.A(), pt.A(pt.N(1), pt.N(2)), pt.A(pt.S("a"), pt.S("")), pt.A(pt.A(pt.N(1)), pt.A()), pt.A(pt.N(1), pt.S("a"), pt.A(pt.B(true))), pt.A(pt.M("k", pt.N(1)), pt.M()),
		pt.M(), pt.M("a", pt.N(1), "b", pt.N(2)), pt.M("for", pt.S("x"), "end", pt.S("y")), pt.M("k", pt.A(pt.N(1)), "j", pt.M("z", pt.S("s"))), pt.V("xa"), pt.V("km")}
	pre := []pt.Stmt{
		pt.TypedDecl{Name: "xa", T: pt.TAny}, pt.Assign{Target: pt.V("xa"), X: pt.A(pt.N(1), pt.S("b"))},
		pt.TypedDecl{Name: "km", T: tNumMap},
		pt.Assign{Target: pt.Index{X: pt.V("km"), I: pt.S("1a")}, X: pt.N(1)}, pt.Assign{Target: pt.Index{X: pt.V("km"), I: pt.S(" b")}, X: pt.N(2)},
		pt.Assign{Target: pt.Index{X: pt.V("km"), I: pt.S("")}, X: pt.N(3)}, pt.Assign{Target: pt.Index{X: pt.V("km"), I: pt.S("a-b")}, X: pt.N(4)},
		pt.Assign{Target: pt.Index{X: pt.V("km"), I: pt.S("é_9")}, X: pt.N(5)}, pt.Assign{Target: pt.Index{X: pt.V("km"), I: pt.S("q\"x")}, X: pt.N(6)},
		pt.Assign{Target: pt.Index{X: pt.V("km"), I: pt.S("while")}, X: pt.N(7)},
		pt.Assign{Target: pt.Index{X: pt.V("km"), I: pt.S("größe")}, X: pt.N(8)}, pt.Assign{Target: pt.Index{X: pt.V("km"), I: pt.S("日本")}, X: pt.N(9)},
		pt.Assign{Target: pt.Index{X: pt.V("km"), I: pt.S("˪")}, X: pt.N(10)}, pt.Assign{Target: pt.Index{X: pt.V("km"), I: pt.S("x é")}, X: pt.N(11)},
		pt.Print(pt.V("xa"), pt.V("km")),
	}
	with := func(ss ...pt.Stmt) []pt.Stmt { return append(append([]pt.Stmt(nil), pre...), ss...) }
	for _, v := range shapes {
		for _, f := range []string{"len", "typeof", "sprint", "repr"} {
			do("shape", with(obs(pt.C(f, v))...), c13Input{})
		}
		do("shape", with(pt.CallStmt{C: pt.C("print", v)}, pt.CallStmt{C: pt.C("print", v, v)}, pt.CallStmt{C: pt.C("print")}), c13Input{})
		do("shape", with(obs(pt.C("sprint", v, pt.S("-"), v))...), c13Input{})
		do("shape", with(obs(pt.C("repr", v, v))...), c13Input{})
		for _, sep := range []string{"", ", ", "€"} {
			do("join", with(obs(pt.C("join", pt.A(v, v), pt.S(sep)))...), c13Input{})
			do("join", with(obs(pt.C("join", v, pt.S(sep)))...), c13Input{})
		}
		do("has", with(obs(pt.C("has", v, pt.S("a")))...), c13Input{})
		do("del", with(pt.InferDecl{Name: "d", X: v}, pt.CallStmt{C: pt.C("del", pt.V("d"), pt.S("a"))}, pt.CallStmt{C: pt.C("del", pt.V("d"), pt.S("zz"))}, pt.Print(pt.V("d"), pt.C("len", pt.V("d")))), c13Input{})
		// (e) formatting verbs
		for _, verb := range []string{"%v", "%s", "%q", "%t", "%f", "%e", "%%", "%5v", "%-5v|", "%05v", "%.2f", "%7.2f", "%7.f", "%-7.2f|", "%07.2f", "%.1e", "%10q", "%-4s|", "%.1s", "%6.2v"} {
			do("printf", with(pt.CallStmt{C: pt.C("printf", pt.S("<"+verb+">\n"), v)}), c13Input{})
			do("sprintf", with(obs(pt.C("sprintf", pt.S(verb+" "+verb), v, v))...), c13Input{})
		}
	}
	do("printf", []pt.Stmt{pt.CallStmt{C: pt.C("printf")}}, c13Input{})
	do("printf", []pt.Stmt{pt.CallStmt{C: pt.C("printf", pt.N(1))}}, c13Input{})
	do("printf", []pt.Stmt{pt.Print(pt.C("sprintf"))}, c13Input{})
	do("printf", []pt.Stmt{pt.CallStmt{C: pt.C("printf", pt.S("100%% sure\\n\n"))}, pt.CallStmt{C: pt.C("printf", pt.S("first: %s, second: %s"), pt.S("A"), pt.S("B"))}}, c13Input{})
	do("io", []pt.Stmt{pt.InferDecl{Name: "a", X: pt.C("read")}, pt.Print(pt.V("a"), pt.C("read")), pt.CallStmt{C: pt.C("cls")}, pt.Print(pt.C("read"), pt.S("|"))}, c13Input{Inputs: []string{"l1", "ä 2"}})
	// (b) err/errmsg protocol: explicit-state search over histories
	errOps := [][]pt.Stmt{
		{pt.Print(pt.C("str2num", pt.S("1")))}, {pt.Print(pt.C("str2num", pt.S("x")))}, {pt.Print(pt.C("str2num", pt.S("1e999")))},
		{pt.Print(pt.C("str2bool", pt.S("true")))}, {pt.Print(pt.C("str2bool", pt.S("maybe")))},
		{pt.Assign{Target: pt.V("err"), X: pt.B(true)}}, {pt.Assign{Target: pt.V("err"), X: pt.B(false)}}, {pt.Assign{Target: pt.V("errmsg"), X: pt.S("mine")}},
		{pt.Assign{Target: pt.V("e0"), X: pt.V("err")}, pt.Assign{Target: pt.V("m0"), X: pt.V("errmsg")}},
		{pt.Assign{Target: pt.V("err"), X: pt.V("e0")}, pt.Assign{Target: pt.V("errmsg"), X: pt.V("m0")}},
		// the code points of errmsg are those of its current text
		{pt.If{Conds: []pt.Expr{pt.Bin(">=", pt.C("len", pt.V("errmsg")), pt.N(4))}, Blocks: [][]pt.Stmt{{pt.Print(pt.S("cp"), pt.Index{X: pt.V("errmsg"), I: pt.N(0)}, pt.Index{X: pt.V("errmsg"), I: pt.N(-1)},
			pt.Slice{X: pt.V("errmsg"), Lo: pt.N(1), Hi: pt.N(4)}, pt.C("len", pt.V("errmsg")))}}, Else: []pt.Stmt{pt.Print(pt.S("cp-short"), pt.Slice{X: pt.V("errmsg")})}},
			pt.For{Var: "c", Range: []pt.Expr{pt.V("errmsg")}, Body: []pt.Stmt{pt.If{Conds: []pt.Expr{pt.Bin("==", pt.V("c"), pt.S("\""))}, Blocks: [][]pt.Stmt{{pt.Print(pt.S("quote"))}}}}}},
		// call arguments are evaluated left to right and keep their value: err / errmsg before a conversion in the same argument list
		{pt.Print(pt.S("args"), pt.V("err"), pt.V("errmsg"), pt.C("str2num", pt.S("7")), pt.V("err"), pt.V("errmsg"), pt.C("str2bool", pt.S("nope")), pt.V("err"), pt.V("errmsg")),
			pt.Print(pt.S("args2"), pt.C("sprint", pt.V("errmsg"), pt.S("/"), pt.C("str2num", pt.S("8")), pt.S("/"), pt.V("errmsg")), pt.A(pt.V("err"), pt.C("str2bool", pt.S("x")), pt.V("err")))},
		// operands are evaluated left to right: err / errmsg on the left keep the value they had
		{pt.Print(pt.S("lr"), pt.Group{X: pt.Bin("==", pt.V("err"), pt.C("str2bool", pt.S("maybe")))}, pt.Group{X: pt.Bin("+", pt.V("errmsg"), pt.C("sprint", pt.C("str2num", pt.S("7"))))})},
	}
	depth := 4
	if !w.Quick() {
		depth = 5
	}
	errStates := map[string]bool{}
	var hist func(prefix []pt.Stmt, d int)
	hist = func(prefix []pt.Stmt, d int) {
		if w.Expired() {
			return
		}
		for _, op := range errOps {
			w.Progress()
			stmts := append(append([]pt.Stmt(nil), prefix...), op...)
			stmts = append(stmts, pt.Print(pt.S("state"), pt.V("err"), pt.V("errmsg"), pt.V("e0"), pt.V("m0")))
			full := append([]pt.Stmt{pt.InferDecl{Name: "e0", X: pt.B(false)}, pt.InferDecl{Name: "m0", X: pt.S("")}}, stmts...)
			ro := ref.RunProg(&pt.Prog{Stmts: full}, ref.Opts{})
			key := fmt.Sprint(ref.Str(ro.Interp.Global("err")), "|", ref.Str(ro.Interp.Global("errmsg")), "|", ref.Str(ro.Interp.Global("e0")), "|", ref.Str(ro.Interp.Global("m0")))
			if !errStates[key] {
				errStates[key] = true
				if w.Shard == 0 {
					w.Count("states", 1)
				}
			}
			if w.Shard == 0 {
				w.Count("transitions", 1)
			}
			do("err-protocol", full, c13Input{})
			if d > 1 {
				hist(stmts, d-1)
			}
		}
	}
	hist(nil, depth)
	// (c) test / exit / panic sequences
	calls := []pt.Stmt{
		pt.CallStmt{C: pt.C("test", pt.B(true))}, pt.CallStmt{C: pt.C("test", pt.B(false))}, pt.CallStmt{C: pt.C("test", pt.N(1), pt.N(1))}, pt.CallStmt{C: pt.C("test", pt.N(1), pt.N(2))},
		pt.CallStmt{C: pt.C("test", pt.A(pt.A(pt.N(1)), pt.A(pt.N(2), pt.N(3))), pt.V("got"))}, pt.CallStmt{C: pt.C("test", pt.S("a"), pt.S("b"), pt.S("msg"))},
		pt.CallStmt{C: pt.C("test", pt.N(42), pt.N(54), pt.S("answer is %v not %v"), pt.N(42), pt.N(54))}, pt.CallStmt{C: pt.C("test", pt.N(1))}, pt.CallStmt{C: pt.C("test")},
		pt.CallStmt{C: pt.C("test", pt.N(1), pt.N(2), pt.N(3))}, pt.CallStmt{C: pt.C("test", pt.M("a", pt.N(1)), pt.M("a", pt.N(1)))}, pt.CallStmt{C: pt.C("test", pt.N(1), pt.S("1"))},
		pt.CallStmt{C: pt.C("test", pt.N(1), pt.N(2), pt.S("25% off %v %s %d"))}, // three arguments: the message is printed as it is, it is not a format string
		pt.CallStmt{C: pt.C("exit", pt.N(3))}, pt.CallStmt{C: pt.C("exit", pt.N(0))}, pt.CallStmt{C: pt.C("panic", pt.S("boom"))}, pt.Print(pt.S("p")),
	}
	gotDecl := []pt.Stmt{pt.TypedDecl{Name: "got", T: pt.ArrOf(pt.TAny)}, pt.Assign{Target: pt.V("got"), X: pt.A(pt.A(pt.N(1)), pt.A(pt.N(2), pt.N(3)))}, pt.Print(pt.V("got"))}
	var seq func(prefix []pt.Stmt, d int)
	seq = func(prefix []pt.Stmt, d int) {
		for _, c := range calls {
			stmts := append(append([]pt.Stmt(nil), prefix...), c)
			for _, ff := range []bool{false, true} {
				for _, ns := range []bool{false, true} {
					do("test-exit-panic", append(append([]pt.Stmt(nil), gotDecl...), stmts...), c13Input{FailFast: ff, NoTestSummary: ns})
				}
			}
			if d > 1 {
				seq(stmts, d-1)
			}
		}
	}
	d := 2
	if !w.Quick() {
		d = 3
	}
	seq(nil, d)
	// (d) rand
	for _, n := range []float64{1, 2, 3, 7, 2.5, 1.5, 100, 2147483647, 0.5, 0.999, 0, -1, -0.5, 2147483648, 1e300, math.Inf(1), math.Inf(-1), math.NaN()} {
		for seed := int64(1); seed <= 8; seed++ {
			o := c13Input{Kind: "rand", Seed: seed, N: n}
			w.Case(fmt.Sprint("rand", n, seed), func() *fw.Violation { w.Nontrivial(); return checkC13(w, o, nil) })
		}
	}
	// (f) documented examples
	for _, ex := range corpus.DocExamples(corpus.RepoDir()) {
		if ex.Err != "" {
			continue
		}
		o := c13Input{Src: ex.Src, Kind: "doc", Want: ex.Output}
		if ex.Input != "" {
			o.Inputs = strings.Split(strings.TrimSuffix(ex.Input, "\n"), "\n")
		}
		w.Case("doc\x00"+ex.Src, func() *fw.Violation { w.Nontrivial(); w.Count("doc-examples", 1); return checkC13(w, o, nil) })
	}
	// (g) read through the evy binary: a line of input without its newline; input that ends with or without a final newline, or early
	for _, stdin := range []string{"one\ntwo\n", "one\ntwo", "one\n", "one", "", "é 😀\n\n"} {
		o := c13Input{Src: "a := read\nb := read\nprint \"[\"+a+\"]\" \"[\"+b+\"]\"\n", Kind: "cli-read", Want: stdin}
		w.Case("cli-read\x00"+stdin, func() *fw.Violation { w.Nontrivial(); w.Count("cli-runs", 1); return checkC13Read(o) })
	}
}

// checkC13Read runs a program that reads two lines through the evy binary with in.Want as its standard input.
func checkC13Read(in c13Input) *fw.Violation {
	stdout, stderr, code, err := runEvy([]string{"run"}, in.Src, in.Want)
	if err != nil {
		panic(err)
	}
	lines := strings.Split(in.Want, "\n") // a final newline ends the last line; missing lines read as ""
	lines = append(lines, "", "")
	want := "[" + lines[0] + "] [" + lines[1] + "]\n"
	if code != 0 || stdout != want || strings.Contains(stderr, "goroutine ") {
		sig := "cli-read"
		if strings.Contains(stderr, "goroutine ") {
			sig = "cli-read-host-crash"
		}
		return &fw.Violation{Sub: "cli-read", Signature: sig, What: "read returns a line of input without its newline; input that ends (with or without a final newline) must not crash the host", Input: in,
			Expected: fmt.Sprintf("exit 0, stdout %q", want), Observed: fmt.Sprintf("exit %d, stdout %q, stderr starts %q", code, stdout, strings.SplitN(stderr, "\n", 2)[0])} // (the rest holds addresses and scratch paths)
	}
	return nil
}

func replayC13(sub string, in json.RawMessage) *fw.Violation {
	var d c13Input
	json.Unmarshal(in, &d)
	if d.Kind == "rand" || d.Kind == "doc" {
		return checkC13(nil, d, nil)
	}
	if d.Kind == "cli-read" {
		return checkC13Read(d)
	}
	v := replayDiffOpts(sub, d)
	return v
}

func checkC13(w *fw.Worker, in c13Input, prog *pt.Prog) *fw.Violation {
	viol := func(sig, what, exp, obs string) *fw.Violation {
		return &fw.Violation{Sub: in.Kind, Signature: sig, What: what, Input: in, Expected: exp, Observed: obs}
	}
	switch in.Kind {
	case "rand":
		src := fmt.Sprintf("for range 64\n    print (rand %s) (rand1)\nend\n", pt.ExprTight(numExpr(in.N)))
		in.Src = src
		o := run.Run(src, run.Opts{Seed: in.Seed})
		if w != nil {
			w.Count("builtin:rand", 1)
			w.Count("builtin:rand1", 1)
			w.Outcome("rand:" + o.Class)
		}
		if o.Class == "gopanic" {
			return viol("gopanic:"+run.PanicSite(o.GoPanic), "host panic", "", o.GoPanic)
		}
		if !(in.N > 0) {
			if o.Class != "panic:bad-arguments" {
				return viol("rand-domain", "rand n with n <= 0 (or NaN) must be the documented panic", "panic:bad-arguments", o.Class+" "+o.Err)
			}
			return nil
		}
		if o.Class != "ok" {
			switch {
			case in.N < 1:
				return viol("rand-fraction-panics", "rand n with 0 < n < 1 panics although only n <= 0 is documented to", "ok (0)", o.Class+" "+o.Err)
			case in.N > 2147483647:
				return nil // beyond 2^31-1: undocumented limit, an Evy panic is acceptable
			}
			return viol("rand-fails", "rand failed inside its domain", "ok", o.Class+" "+o.Err)
		}
		for _, e := range o.Trace {
			f := strings.Fields(strings.TrimPrefix(e, "print:"))
			if len(f) != 2 {
				return viol("rand-output", "unexpected output", "two numbers", e)
			}
			r, err1 := strconv.ParseFloat(f[0], 64)
			r1, err2 := strconv.ParseFloat(f[1], 64)
			if err1 != nil || err2 != nil || r != math.Trunc(r) || r < 0 || r >= in.N || r1 < 0 || r1 >= 1 {
				return viol("rand-range", "rand n must be an integer in [0,n), rand1 in [0,1)", fmt.Sprint("n=", in.N), e)
			}
		}
		return nil
	case "doc":
		o := run.Run(in.Src, run.Opts{Inputs: in.Inputs})
		if strings.Contains(in.Src, "rand") {
			return nil
		}
		var sb strings.Builder
		for _, e := range o.Trace {
			if strings.HasPrefix(e, "print:") {
				sb.WriteString(e[6:])
			}
			if e == "cls" {
				sb.Reset()
			}
		}
		if strings.TrimRight(sb.String(), "\n") != strings.TrimRight(in.Want, "\n") {
			return viol("doc-example-differs", "a documented example does not produce its documented output", in.Want, sb.String()+" ("+o.Class+" "+o.Err+")")
		}
		return nil
	}
	if err := ref.Check(prog); err != nil {
		if _, lat := err.(*ref.LatitudeErr); !lat {
			// a generated call the reference signatures reject (e.g. len of a num is accepted statically: any) - skip
			if w != nil {
				w.Count("ref-skip:ill-typed", 1)
			}
		}
		return nil
	}
	ro := ref.RunProg(prog, ref.Opts{Inputs: in.Inputs, FailFast: in.FailFast, NoTestSummary: in.NoTestSummary})
	if ro.Class == "latitude" || ro.Class == "resource" || ro.Class == "budget" {
		if w != nil {
			w.Count("ref-skip:"+ro.Class, 1)
		}
		return nil
	}
	if ro.Class == "ref-type-error" {
		panic("C13 reference cannot run: " + ro.Msg + "\n" + in.Src)
	}
	io := run.Run(in.Src, run.Opts{Inputs: in.Inputs, FailFast: in.FailFast, NoTestSummary: in.NoTestSummary})
	if w != nil {
		w.Outcome(io.Class)
		names := map[string]bool{}
		for _, s := range prog.Stmts {
			collectCalls(s, names)
		}
		for n := range names {
			w.Count("builtin:"+n, 1)
		}
	}
	called := calledBuiltins(prog)
	switch {
	case io.Class == "parse-error":
		return viol("documented-call-rejected:"+called, "a call the documented signature allows is rejected by the parser", "accepted", io.ParseErr)
	case io.Class == "gopanic":
		return viol("gopanic:"+run.PanicSite(io.GoPanic), "host panic", ro.Class, io.GoPanic)
	case io.Class == "internal" || io.Class == "unknown-error":
		return viol("internal-error", "internal error", ro.Class, io.Err)
	}
	if !classCompatible(ro.Class, io.Class) {
		sig := "result:" + ro.Class + "->" + io.Class + ":" + called
		if strings.Contains(called, "printf") && ro.Class == "panic:bad-arguments" && io.Class == "ok" && strings.Contains(run.Show(io.Trace), "%!") {
			sig = "printf-verb-mismatch-no-panic"
		}
		return viol(sig, "result differs from the documentation", ro.Class+" "+ro.Msg+" ; "+run.Show(ro.Trace), io.Class+" "+io.Err+" ; "+run.Show(io.Trace))
	}
	if run.TraceString(ro.Trace) != run.TraceString(io.Trace) {
		return viol("output:"+called, "output differs from the documentation", run.Show(ro.Trace), run.Show(io.Trace))
	}
	if in.Kind == "test-exit-panic" {
		if io.Total != ro.Interp.TestTotal || io.Fails != ro.Interp.TestFails {
			return viol("test-counts", "test bookkeeping differs", fmt.Sprint(ro.Interp.TestTotal, " total ", ro.Interp.TestFails, " failed"), fmt.Sprint(io.Total, " total ", io.Fails, " failed"))
		}
		// each failed test is reported with its message: " (msg)" for a two-value test with a message
		rest := io.Err
		for _, m := range ro.Interp.TestMsgs {
			if io.Class != "test-fail" {
				break // the run ended with another error, which is the one reported
			}
			if m == "" || m == "\x00" {
				continue
			}
			i := strings.Index(rest, " ("+m+")")
			if i < 0 {
				return viol("test-message", "a failed test is not reported with its message", "... ("+m+")", io.Err)
			}
			rest = rest[i+len(m)+3:]
		}
		// the binary's exit status: exit n -> n (mod 256), panic / failed test -> 1, otherwise 0
		if w == nil || hash(in.Src)%16 == 0 {
			args := []string{"run"}
			if in.FailFast {
				args = append(args, "--fail-fast")
			}
			if in.NoTestSummary {
				args = append(args, "--no-test-summary")
			}
			_, stderr, code, err := runEvy(args, in.Src, "")
			if err != nil {
				panic(err)
			}
			if w != nil {
				w.Count("cli-runs", 1)
			}
			want := 0
			switch {
			case strings.HasPrefix(io.Class, "exit:"):
				n, _ := strconv.Atoi(io.Class[5:])
				want = n & 0xff
			case io.Class != "ok":
				want = 1
			}
			if code != want || (want == 1 && !strings.HasPrefix(io.Class, "exit:") && stderr == "") {
				return viol("cli-exit-status", "exit status / stderr of evy run", fmt.Sprint("exit ", want), fmt.Sprintf("exit %d stderr %q", code, stderr))
			}
		}
	}
	return nil
}

func collectCalls(s pt.Stmt, out map[string]bool) {
	add := func(e pt.Expr) {
		m := map[string]bool{}
		VarsUsed(e, m)
		for k := range m {
			if strings.HasPrefix(k, "call:") {
				out[k[5:]] = true
			}
		}
	}
	switch v := s.(type) {
	case pt.InferDecl:
		add(v.X)
	case pt.Assign:
		add(v.X)
	case pt.CallStmt:
		add(v.C)
	}
}

func calledBuiltins(p *pt.Prog) string {
	names := map[string]bool{}
	for _, s := range p.Stmts {
		collectCalls(s, names)
	}
	delete(names, "print")
	delete(names, "typeof")
	delete(names, "repr")
	var ks []string
	for k := range names {
		ks = append(ks, k)
	}
	sort.Strings(ks)
	if len(ks) == 0 {
		return "print"
	}
	return strings.Join(ks, "+")
}
