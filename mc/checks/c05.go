package checks

import (
	"bytes"
	"encoding/json"
	"fmt"
	"os"
	"os/exec"
	"path/filepath"
	"strings"
	"time"

	"verif/mc/astconv"
	"verif/mc/corpus"
	"verif/mc/fw"
	"verif/mc/pt"
	"verif/mc/ref"
	"verif/mc/run"
)

// C05 — invalid programs are rejected and nothing of them runs.

func init() {
	fw.Register(&fw.Check{
		ID:    "C05",
		Level: "exploration",
		Rule: "seeds = all generated nestings to depth 1 (quick) / 2 (thorough) with one effectful statement per block plus the hand-written seed corpus (handlers, variadics, typed functions); " +
			"mutation operators, one per static rule of the statement, applied AT EVERY POSITION where they apply: R1 undeclared variable, R2 unused variable, R3 redeclaration in the same " +
			"scope, R4 type mismatch, R5 wrong argument count, R6 missing return, R7 unreachable code, R8 break outside a loop, R12 two parameters with one name, R13 a variable of one if-branch used in the next branch, R14 a call without a value (cls) in every expression slot and as both operands of every operator, R9 value returned from handler/procedure (and return at top " +
			"level), R10 unknown function, R11 stray text after a statement / after end / else / headers. A mutant is judged only if the reference static checker (docs/spec.md rules) rejects " +
			"it (R11: invalid by the grammar). Oracle: Parse returns located errors (C03 position oracle), Evaluator.Run returns them with an empty effect trace, and the evy run binary prints " +
			"nothing on stdout, something on stderr and exits non-zero. Non-trivial = every judged mutant.",
		Assumptions: []string{"programs that break a rule in a way no single-edit operator produces are not explored"},
		TrustedBase: []string{"reference static checker /verif/mc/ref/check.go", "os/exec for the CLI runs"},
		Run:         runC05,
		Replay: func(sub string, in json.RawMessage) *fw.Violation {
			var d c05Input
			json.Unmarshal(in, &d)
			return checkC05(nil, d, true)
		},
		DeadlineQuick: 5 * time.Minute, DeadlineThorough: 25 * time.Minute,
		Vacuity: func(m *fw.Result) string {
			for _, r := range []string{"R1", "R2", "R3", "R4", "R5", "R6", "R7", "R8", "R9", "R10", "R11", "R12", "R13", "R14"} {
				if m.Counters["judged:"+r] == 0 {
					return "rule produced no judged mutant: " + r
				}
			}
			if m.Counters["cli-runs"] < 20 {
				return "too few CLI runs"
			}
			return ""
		},
	})
}

type c05Input struct {
	Src  string `json:"src"`
	Rule string `json:"rule"`
}

// siteMutants returns all single-site mutants of prog for the given rule.
func c05Mutants(prog *pt.Prog, rule string) []*pt.Prog {
	var out []*pt.Prog
	for target := 0; ; target++ {
		n := -1
		hit := false
		site := func() bool {
			n++
			if n == target {
				hit = true
				return true
			}
			return false
		}
		var m *pt.Prog
		switch rule {
		case "R1": // undeclared variable: rename each use
			m = pt.MapExprs(prog, func(e pt.Expr, slot string) pt.Expr {
				if v, ok := e.(pt.Var); ok && slot != "target" && site() {
					return pt.Var{Name: v.Name + "undeclared"}
				}
				return e
			})
		case "R10": // unknown function: rename each callee
			m = pt.MapExprs(prog, func(e pt.Expr, slot string) pt.Expr {
				if c, ok := e.(pt.Call); ok && site() {
					return pt.Call{Name: "nosuchfn" + c.Name, Args: c.Args}
				}
				return e
			})
		case "R4": // type mismatch: replace each expression slot by a literal of another type
			// ... or by a variable of type any (which is not a bool, num, string, array or map where one is required)
			lits := []pt.Expr{pt.N(1), pt.S("s"), pt.B(true), pt.A(pt.N(1)), pt.M("k", pt.N(1)), pt.V("zzany")}
			usedAny := false
			m = pt.MapExprs(prog, func(e pt.Expr, slot string) pt.Expr {
				if slot == "target" || slot == "callstmt" {
					return e
				}
				for i, l := range lits {
					anySlot := slot == "cond" || slot == "index" || slot == "indexed" || slot == "range" || slot == "operand"
					if i == len(lits)-1 && !anySlot {
						continue // any is substituted where a concrete type is required by the construct itself; the typing of literals that mix any with other elements is C04's subject
					}
					if site() {
						usedAny = i == len(lits)-1
						return l
					}
				}
				return e
			})
			if usedAny {
				m = &pt.Prog{Stmts: append([]pt.Stmt{pt.TypedDecl{Name: "zzany", T: pt.TAny}, pt.Assign{Target: pt.V("zzany"), X: pt.B(true)}}, m.Stmts...)}
			}
		case "R14": // a call without a value where a value is required: in each expression slot, and as BOTH operands of each operator
			none := pt.Group{X: pt.Call{Name: "cls"}}
			m = pt.MapExprs(prog, func(e pt.Expr, slot string) pt.Expr {
				if slot == "target" || slot == "callstmt" {
					return e
				}
				if b, ok := e.(pt.Binary); ok && site() {
					return pt.Binary{Op: b.Op, L: none, R: none}
				}
				if site() {
					return none
				}
				return e
			})
		case "R5": // wrong argument count: drop the last / add one argument at each call
			m = pt.MapExprs(prog, func(e pt.Expr, slot string) pt.Expr {
				c, ok := e.(pt.Call)
				if !ok {
					return e
				}
				if len(c.Args) > 0 && site() {
					return pt.Call{Name: c.Name, Args: c.Args[:len(c.Args)-1]}
				}
				if site() {
					return pt.Call{Name: c.Name, Args: append(append([]pt.Expr(nil), c.Args...), pt.N(1))}
				}
				return e
			})
		case "R2", "R7", "R8", "R9": // insert a statement at each position of each block
			m = pt.MapBlocks(prog, func(ss []pt.Stmt, cx pt.BlockCtx) []pt.Stmt {
				for pos := 0; pos <= len(ss); pos++ {
					var ins []pt.Stmt
					switch rule {
					case "R2":
						ins = []pt.Stmt{pt.InferDecl{Name: "zzunused", X: pt.N(1)}}
					case "R7":
						if pos == 0 {
							continue
						}
						switch ss[pos-1].(type) {
						case pt.Return, pt.Break, pt.If: // after an if statement the reference decides whether every branch terminates
							ins = []pt.Stmt{pt.Print(pt.S("unreachable"))}
						default:
							continue
						}
						// the dead statement directly after the terminator, after a comment line, after a blank line
						if site() {
							out := append(append([]pt.Stmt(nil), ss[:pos]...), ins...)
							return append(out, ss[pos:]...)
						}
						if site() {
							out := append(append([]pt.Stmt(nil), ss[:pos]...), pt.Comment{Text: "note"})
							out = append(out, ins...)
							return append(out, ss[pos:]...)
						}
						ins = append([]pt.Stmt{pt.Blank{}, pt.Comment{Text: "another note"}, pt.Blank{}}, ins...)
					case "R8":
						ins = []pt.Stmt{pt.Break{}}
					case "R9":
						ins = []pt.Stmt{pt.Return{X: pt.N(1)}}
					}
					if site() {
						out := append(append([]pt.Stmt(nil), ss[:pos]...), ins...)
						return append(out, ss[pos:]...)
					}
				}
				return ss
			})
		case "R3": // redeclaration in the same scope: duplicate each declaration; redeclare parameters and loop variables
			m = pt.MapBlocks(prog, func(ss []pt.Stmt, cx pt.BlockCtx) []pt.Stmt {
				for i, s := range ss {
					switch d := s.(type) {
					case pt.InferDecl:
						if site() {
							out := append(append([]pt.Stmt(nil), ss[:i+1]...), pt.InferDecl{Name: d.Name, X: pt.N(1)})
							return append(out, ss[i+1:]...)
						}
					case pt.TypedDecl:
						if site() {
							out := append(append([]pt.Stmt(nil), ss[:i+1]...), d)
							return append(out, ss[i+1:]...)
						}
					}
				}
				var names []string
				switch o := cx.Owner.(type) {
				case pt.Func:
					for _, p := range o.Params {
						names = append(names, p.Name)
					}
				case pt.On:
					for _, p := range o.Params {
						names = append(names, p.Name)
					}
				case pt.For:
					if o.Var != "" {
						names = append(names, o.Var)
					}
				}
				for _, nm := range names {
					if nm != "_" && site() {
						return append([]pt.Stmt{pt.InferDecl{Name: nm, X: pt.N(1)}, pt.Print(pt.V(nm))}, ss...)
					}
				}
				return ss
			})
		case "R12": // two parameters with the same name
			m = pt.MapBlocks(prog, func(ss []pt.Stmt, cx pt.BlockCtx) []pt.Stmt {
				out := append([]pt.Stmt(nil), ss...)
				for i, st := range ss {
					dup := func(ps []pt.Param) []pt.Param {
						if len(ps) < 2 || ps[0].Name == "_" {
							return nil
						}
						q := append([]pt.Param(nil), ps...)
						q[len(q)-1].Name = q[0].Name
						return q
					}
					switch v := st.(type) {
					case pt.Func:
						if q := dup(v.Params); q != nil && site() {
							v.Params = q
							out[i] = v
							return out
						}
					case pt.On:
						if q := dup(v.Params); q != nil && site() {
							v.Params = q
							out[i] = v
							return out
						}
					}
				}
				return ss
			})
		case "R13": // a variable declared in one branch of an if statement used in the next branch
			m = pt.MapBlocks(prog, func(ss []pt.Stmt, cx pt.BlockCtx) []pt.Stmt {
				out := append([]pt.Stmt(nil), ss...)
				for i, st := range ss {
					v, ok := st.(pt.If)
					if !ok {
						continue
					}
					nb := len(v.Blocks)
					for b := 0; b < nb; b++ {
						last := b == nb-1
						if last && v.Else == nil {
							continue
						}
						if !site() {
							continue
						}
						w := v
						w.Blocks = append([][]pt.Stmt(nil), v.Blocks...)
						w.Blocks[b] = append([]pt.Stmt{pt.InferDecl{Name: "zzb", X: pt.N(1)}, pt.Print(pt.V("zzb"))}, v.Blocks[b]...)
						if last {
							w.Else = append([]pt.Stmt{pt.Print(pt.V("zzb"))}, v.Else...)
						} else {
							w.Blocks[b+1] = append([]pt.Stmt{pt.Print(pt.V("zzb"))}, v.Blocks[b+1]...)
						}
						out[i] = w
						return out
					}
				}
				return ss
			})
		case "R6": // missing return: delete each return statement of a function with a result
			m = pt.MapBlocks(prog, func(ss []pt.Stmt, cx pt.BlockCtx) []pt.Stmt {
				for i, s := range ss {
					if _, ok := s.(pt.Return); ok && cx.InFunc && site() {
						out := append(append([]pt.Stmt(nil), ss[:i]...), pt.Print(pt.S("noreturn")))
						return append(out, ss[i+1:]...)
					}
				}
				return ss
			})
		}
		if !hit {
			return out
		}
		out = append(out, m)
	}
}

// c05Stray returns the R11 textual mutants of a source: stray tokens after lines where no token may follow.
func c05Stray(src string) []string {
	lines := strings.Split(strings.TrimSuffix(src, "\n"), "\n")
	var out []string
	for i, l := range lines {
		t := strings.TrimSpace(l)
		if t == "" || strings.HasPrefix(t, "//") {
			continue
		}
		first := strings.Fields(t)[0]
		var toks []string
		switch {
		case t == "end" || t == "else" || t == "break":
			toks = []string{"1", "x", "\"s\"", ")", "end", "print 2"}
		case t == "return":
			// "return print 2" is grammatical (return_stmt = "return" [toplevel_expr]) - only non-expressions are stray here
			toks = []string{")", "end", "else"}
		case first == "func" || first == "on":
			toks = []string{"1", "\"s\"", ")", "end"}
		case first == "if" || first == "while" || first == "return" || strings.HasPrefix(t, "else if"):
			toks = []string{"1", "\"s\"", ")", "end", "x"}
		case first == "for":
			toks = []string{")", "end", "\"s\"", "true"}
		case strings.Contains(t, ":=") || strings.Contains(t, " = "):
			rhs := t[strings.Index(t, "=")+1:]
			if f := strings.Fields(rhs); len(f) > 0 && isCallName(f[0]) {
				continue // a bare call on the right-hand side takes further arguments
			}
			toks = []string{"1", "\"s\"", ")", "end", "x"}
		default:
			if strings.Contains(t, ":") && !strings.Contains(t, " ") { // typed declaration x:num
				toks = []string{"1", "\"s\"", ")", "end", "x"}
			}
		}
		for _, tok := range toks {
			m := append([]string(nil), lines...)
			m[i] = l + " " + tok
			out = append(out, strings.Join(m, "\n")+"\n")
		}
	}
	return out
}

func isCallName(s string) bool {
	_, ok := ref.BuiltinSigs[s]
	return ok || strings.HasPrefix(s, "f") && len(s) <= 4 || s == "fact" || s == "even" || s == "odd" || s == "find" || s == "rec" || s == "vf" || s == "add" || s == "g" || s == "v" || s == "fib"
}

func runC05(w *fw.Worker) {
	depth := 1
	if !w.Quick() {
		depth = 2
	}
	cliEvery := map[string]int{}
	handle := func(prog *pt.Prog, seedNo int) {
		if ref.Check(prog) != nil {
			return // not a valid seed
		}
		for _, rule := range []string{"R1", "R2", "R3", "R4", "R5", "R6", "R7", "R8", "R9", "R10", "R12", "R13", "R14"} {
			for _, m := range c05Mutants(prog, rule) {
				err := ref.Check(m)
				if _, reject := err.(*ref.TypeErr); !reject {
					w.Count("mutant-still-valid:"+rule, 1)
					continue
				}
				src := pt.Source(m)
				cliEvery[rule]++
				cli := cliEvery[rule]%c05CLIStride(w, rule) == 1
				in := c05Input{src, rule}
				w.Case(src, func() *fw.Violation {
					w.Nontrivial()
					w.Count("judged:"+rule, 1)
					if seedNo%50 == 0 {
						w.Sample(in)
					}
					return checkC05(w, in, cli)
				})
			}
		}
		src := pt.Source(prog)
		for _, m := range c05Stray(src) {
			cliEvery["R11"]++
			cli := cliEvery["R11"]%c05CLIStride(w, "R11") == 1
			in := c05Input{m, "R11"}
			w.Case(m, func() *fw.Violation {
				w.Nontrivial()
				w.Count("judged:R11", 1)
				return checkC05(w, in, cli)
			})
		}
	}
	n := 0
	for d := 0; d <= depth; d++ {
		d := d
		bound := -1
		if d == 2 {
			bound = 4
			w.NotExhaustive("depth-2 seeds are enumerated up to 4 deviations from the default generator choices")
		}
		fw.Explore(bound, func(c *fw.Ctx) {
			if w.Expired() {
				return
			}
			g := &c10gen{c: c}
			body := g.block(d, c10ctx{})
			stmts := []pt.Stmt{pt.InferDecl{Name: "g", X: pt.N(0)}}
			stmts = append(stmts, body...)
			stmts = append(stmts, pt.Print(pt.S("end"), pt.V("g")))
			stmts = append(stmts, g.funcs...)
			n++
			handle(&pt.Prog{Stmts: stmts}, n)
		}, func(*fw.Ctx) bool { return !w.Expired() })
	}
	for _, s := range corpus.Seeds {
		prog, _, _ := run.Parse(s)
		if prog == nil {
			continue
		}
		p, err := astconv.Prog(prog)
		if err != nil {
			continue
		}
		n++
		handle(p, n)
	}
}

func c05CLIStride(w *fw.Worker, rule string) int {
	if w.Quick() {
		return 400
	}
	return 150 // three binary runs per sampled mutant (plain, --svg-out -, --svg-out FILE)
}

// checkC05 judges one invalid program.
func checkC05(w *fw.Worker, in c05Input, cli bool) *fw.Violation {
	src := in.Src
	viol := func(sig, what, obs string) *fw.Violation {
		return &fw.Violation{Sub: "reject", Signature: sig + ":" + in.Rule, What: what, Input: in, Expected: "rejected with located errors, nothing executed", Observed: obs}
	}
	prog, errs, gp := run.Parse(src)
	if gp != "" {
		return viol("parser-gopanic:"+run.PanicSite(gp), "parser panicked", gp)
	}
	if prog != nil {
		o := run.Run(src, run.Opts{Budget: 5000})
		return viol("invalid-program-accepted", "a program that breaks a static rule is accepted by the parser", "accepted; running it gives "+o.Class+" "+run.Show(o.Trace))
	}
	if len(errs) == 0 {
		return viol("no-errors", "rejected without errors", "")
	}
	if v := checkC03(src); v != nil { // every error located
		v.Sub, v.Input = "reject", in
		v.Signature = "c03:" + v.Signature
		return v
	}
	o := run.Run(src, run.Opts{Budget: 5000})
	if o.Class != "parse-error" || len(o.Trace) != 0 {
		return viol("executed", "Evaluator.Run executed part of a rejected program", o.Class+" "+run.Show(o.Trace))
	}
	if cli {
		if w != nil {
			w.Count("cli-runs", 1)
		}
		stdout, stderr, code, err := runEvy([]string{"run"}, src, "")
		if err != nil {
			panic("cannot run the evy binary: " + err.Error())
		}
		if stdout != "" || stderr == "" || code == 0 {
			return viol("cli", "evy run of a rejected program", fmt.Sprintf("stdout=%q stderr=%q exit=%d", stdout, stderr, code))
		}
		// with --svg-out nothing is drawn for a rejected program either: no document on stdout, no file created or overwritten
		stdout, _, code, err = runEvy([]string{"run", "--svg-out", "-"}, src, "")
		if err != nil {
			panic("cannot run the evy binary: " + err.Error())
		}
		if stdout != "" || code == 0 {
			return viol("cli-svg-stdout", "evy run --svg-out - of a rejected program wrote to stdout", fmt.Sprintf("stdout=%q exit=%d", fw.Trunc(stdout, 200), code))
		}
		dir, derr := os.MkdirTemp(os.Getenv("VERIF_BUILD_DIR"), "svgrej-")
		if derr != nil {
			panic(derr)
		}
		defer os.RemoveAll(dir)
		out := filepath.Join(dir, "out.svg")
		const earlier = "<svg>earlier drawing</svg>\n"
		os.WriteFile(out, []byte(earlier), 0o644)
		_, _, code, _ = runEvy([]string{"run", "--svg-out", out}, src, "")
		if b, _ := os.ReadFile(out); string(b) != earlier || code == 0 {
			return viol("cli-svg-file", "evy run --svg-out FILE of a rejected program touched the file", fmt.Sprintf("file=%q exit=%d", fw.Trunc(string(b), 200), code))
		}
	}
	return nil
}

// runEvy runs the evy binary built from the working tree on a temporary file holding src.
// runEvyFiles writes the named files into a scratch directory and runs the evy binary with args followed by the file names (in order).
// It returns the exit status and the files' contents afterwards.
func runEvyFiles(args []string, names []string, contents []string) (stderr string, code int, after []string, err error) {
	bin := os.Getenv("VERIF_EVY")
	if bin == "" {
		return "", 0, nil, fmt.Errorf("VERIF_EVY not set")
	}
	dir, err := os.MkdirTemp(os.Getenv("VERIF_BUILD_DIR"), "evyf-")
	if err != nil {
		return "", 0, nil, err
	}
	defer os.RemoveAll(dir)
	full := append([]string(nil), args...)
	for i, n := range names {
		f := filepath.Join(dir, n)
		if err := os.WriteFile(f, []byte(contents[i]), 0o644); err != nil {
			return "", 0, nil, err
		}
		full = append(full, f)
	}
	cmd := exec.Command(bin, full...)
	var se bytes.Buffer
	cmd.Stderr = &se
	cmd.Env = append(os.Environ(), "NO_COLOR=1")
	if rerr := cmd.Run(); rerr != nil {
		ee, ok := rerr.(*exec.ExitError)
		if !ok {
			return "", 0, nil, rerr
		}
		code = ee.ExitCode()
	}
	for _, n := range names {
		b, _ := os.ReadFile(filepath.Join(dir, n))
		after = append(after, string(b))
	}
	return se.String(), code, after, nil
}

func runEvy(args []string, src string, stdin string) (stdout, stderr string, code int, err error) {
	bin := os.Getenv("VERIF_EVY")
	if bin == "" {
		return "", "", 0, fmt.Errorf("VERIF_EVY not set")
	}
	dir, err := os.MkdirTemp(os.Getenv("VERIF_BUILD_DIR"), "evy-")
	if err != nil {
		return "", "", 0, err
	}
	defer os.RemoveAll(dir)
	f := filepath.Join(dir, "p.evy")
	if err := os.WriteFile(f, []byte(src), 0o644); err != nil {
		return "", "", 0, err
	}
	cmd := exec.Command(bin, append(args, f)...)
	var so, se bytes.Buffer
	cmd.Stdout, cmd.Stderr = &so, &se
	cmd.Stdin = strings.NewReader(stdin)
	cmd.Env = append(os.Environ(), "NO_COLOR=1")
	rerr := cmd.Run()
	code = 0
	if rerr != nil {
		if ee, ok := rerr.(*exec.ExitError); ok {
			code = ee.ExitCode()
		} else {
			return "", "", 0, rerr
		}
	}
	return so.String(), se.String(), code, nil
}
