package checks

import (
	"encoding/json"
	"fmt"
	"time"

	"verif/mc/astconv"
	"verif/mc/fw"
	"verif/mc/pt"
	"verif/mc/run"
)

// C01 — expressions evaluate as the language definition prescribes.

func init() {
	fw.Register(&fw.Check{
		ID:    "C01",
		Level: "exploration",
		Rule: "all well-typed expression trees with exactly 0..k operator nodes (k=2 quick, 3 thorough with a reduced leaf alphabet) over every operator of the specification's table " +
			"on num/string/bool/[]num/{}num operands, leaves = literals, variables and effectful calls (a user function that prints and returns its argument); each tree printed with " +
			"minimal and with full parentheses in four contexts (tight call argument, spaced right-hand side, grouped argument, tight argument followed by arguments starting with - and [); run on the real evaluator and compared " +
			"(effect trace + result class) with the reference interpreter. Non-trivial = the tree has at least one operator node.",
		Assumptions: []string{"operand values are restricted to the leaf alphabet; IEEE-754 arithmetic itself is Go's float64 on both sides", "trees deeper than k operators are not explored"},
		TrustedBase: []string{"reference interpreter /verif/mc/ref (validated against the documented examples)", "strconv.FormatFloat for number rendering", "math.Mod"},
		Run:         runC01,
		Replay: func(sub string, in json.RawMessage) *fw.Violation {
			var d DiffInput
			json.Unmarshal(in, &d)
			return replayDiff(sub, d)
		},
		DeadlineQuick: 5 * time.Minute, DeadlineThorough: 25 * time.Minute,
		Vacuity: func(m *fw.Result) string {
			for _, op := range []string{"binary+", "binary-", "binary*", "binary/", "binary%", "binaryand", "binaryor", "binary==", "binary!=", "binary<", "binary<=", "binary>", "binary>=", "unary-", "unary!", "index", "slice", "dot"} {
				if m.Counters["op:"+op] == 0 {
					return "operator never generated: " + op
				}
			}
			if len(m.Outcomes) < 3 {
				return fmt.Sprint("too few distinct outcomes: ", len(m.Outcomes))
			}
			return ""
		},
	})
}

// replayDiff re-parses the source with the repository parser to obtain the tree for the reference.
func replayDiff(sub string, d DiffInput) *fw.Violation {
	prog, errs, gp := run.Parse(d.Src)
	if prog == nil {
		return &fw.Violation{Sub: sub, Signature: "replay-parse", What: "source no longer parses", Input: d, Observed: fmt.Sprint(errs, gp)}
	}
	p, err := astconv.Prog(prog)
	if err != nil {
		return &fw.Violation{Sub: sub, Signature: "replay-conv", What: err.Error(), Input: d}
	}
	v, _ := diffProg(nil, sub, d.Src, p, d.Inputs)
	return v
}

func c01Leaves(full bool) map[string][]pt.Expr {
	nan := pt.Group{X: pt.Bin("/", pt.N(0), pt.N(0))}
	inf := pt.Group{X: pt.Bin("/", pt.N(1), pt.N(0))}
	l := map[string][]pt.Expr{
		"num":    {pt.N(2), pt.N(0), pt.N(7.5), pt.V("nv"), pt.C("n", pt.N(1)), nan, inf},
		"string": {pt.S("a"), pt.S(""), pt.S("b€"), pt.V("sv"), pt.C("s", pt.S("x"))},
		"bool":   {pt.B(true), pt.B(false), pt.V("bv"), pt.C("b", pt.B(true)), pt.C("b", pt.B(false))},
		"[]num":  {pt.A(pt.N(1), pt.N(2)), pt.A(), pt.V("av"), pt.C("a", pt.A(pt.N(5)))},
		"{}num":  {pt.M("a", pt.N(1)), pt.M("b", pt.N(2), "a", pt.N(1)), pt.V("mv"), pt.M()},
		"any":    {pt.V("xa"), pt.V("xb"), pt.V("xn"), pt.V("xs"), pt.V("xm"), pt.V("xq"), pt.V("xt"), pt.V("xr")},
		"[]any":  {pt.A(pt.N(1), pt.A(pt.N(1), pt.N(2))), pt.V("ya"), pt.A(pt.N(1), pt.S("a"))},
	}
	if !full {
		l = map[string][]pt.Expr{
			"num":    {pt.N(2), pt.V("nv"), pt.C("n", pt.N(1)), pt.N(0)},
			"string": {pt.S("a"), pt.V("sv"), pt.S("b€")},
			"bool":   {pt.B(true), pt.C("b", pt.B(false)), pt.V("bv")},
			"[]num":  {pt.A(pt.N(1), pt.N(2)), pt.V("av")},
			"{}num":  {pt.M("b", pt.N(2), "a", pt.N(1)), pt.V("mv")},
			"any":    {pt.V("xa"), pt.V("xb"), pt.V("xn")},
			"[]any":  {pt.A(pt.N(1), pt.A(pt.N(1), pt.N(2))), pt.V("ya")},
		}
	}
	return l
}

var c01Types = []*pt.Type{pt.TNum, pt.TStr, pt.TBool, tNumArr, tNumMap, pt.TAny, tAnyArr}

func runC01(w *fw.Worker) {
	type tier struct {
		k    int
		full bool
	}
	tiers := []tier{{2, true}}
	if !w.Quick() {
		tiers = []tier{{2, true}, {3, false}}
	}
	for _, tr := range tiers {
		for _, t := range c01Types {
			for b := 0; b <= tr.k; b++ {
				t, b := t, b
				g0 := &ExprGen{Leaves: c01Leaves(tr.full)}
				if !g0.feasible(t, b) {
					continue
				}
				fw.Explore(-1, func(c *fw.Ctx) {
					if w.Expired() {
						return
					}
					g := &ExprGen{C: c, Leaves: c01Leaves(tr.full)}
					e := g.Gen(t, b)
					c01Tree(w, e, t, b)
				}, func(*fw.Ctx) bool { return !w.Expired() })
			}
		}
	}
}

func c01Tree(w *fw.Worker, e pt.Expr, t *pt.Type, b int) {
	used := map[string]bool{}
	VarsUsed(e, used)
	pre := Prelude(used)
	for _, full := range []bool{false, true} {
		for ctx := 0; ctx < 4; ctx++ {
			if ctx == 3 && full {
				continue
			}
			var body []pt.Stmt
			switch ctx {
			case 0: // tight argument
				body = []pt.Stmt{pt.Print(pt.S("r"), e)}
			case 1: // spaced right-hand side
				body = []pt.Stmt{pt.InferDecl{Name: "r", X: e}, pt.Print(pt.S("r"), pt.V("r"))}
			case 2: // grouped argument (whitespace allowed inside the parentheses)
				body = []pt.Stmt{pt.Print(pt.S("r"), pt.Group{X: e})}
			case 3: // tight argument followed by further arguments that start with "-" and "[": whitespace ends the argument
				body = []pt.Stmt{pt.Print(pt.S("r"), e, pt.N(-7), pt.A(pt.N(5)))}
			}
			prog := &pt.Prog{Stmts: append(append([]pt.Stmt(nil), pre...), body...)}
			src := (&pt.Printer{FullParens: full}).Program(prog)
			w.Case(src, func() *fw.Violation {
				if b > 0 {
					w.Nontrivial()
				}
				v, skip := diffProg(w, "expr", src, prog, nil)
				if !skip {
					ops := map[string]bool{}
					OpNames(e, ops)
					for op := range ops {
						w.Count("op:"+op, 1)
					}
					if b == 2 {
						w.Sample(src)
					}
				}
				return v
			})
		}
	}
}

// replayDiffOpts replays a differential case that carries run options.
func replayDiffOpts(sub string, d c13Input) *fw.Violation {
	prog, errs, gp := run.Parse(d.Src)
	if prog == nil {
		return &fw.Violation{Sub: sub, Signature: "replay-parse", What: "source no longer parses", Input: d, Observed: fmt.Sprint(errs, gp)}
	}
	p, err := astconv.Prog(prog)
	if err != nil {
		return &fw.Violation{Sub: sub, Signature: "replay-conv", What: err.Error(), Input: d}
	}
	return checkC13(nil, d, p)
}
