package checks

import (
	"encoding/json"
	"fmt"
	"math"
	"strings"
	"time"

	"verif/mc/fw"
	"verif/mc/pt"
	"verif/mc/run"
)

// C11 — index and slice laws for arrays and strings.

func init() {
	fw.Register(&fw.Check{
		ID:    "C11",
		Level: "exploration",
		Rule: "every string of length 0..4 (thorough 0..5) over {a, é, 😀} and every num/string/nested/any array of length 0..5 (0..6), crossed with every index from " +
			"[-n-2,n+2] ∪ {±0.5, n-0.5, values one rounding step away from 0, ±1, ±n (±1e-17, ±0.9999999999999999, the residue 0.3-0.1-0.2), ±1e18, ±2^63, 1e300, NaN, ±Inf} (as literal and as computed variable) and every pair of slice bounds from that set plus 'missing'; " +
			"reads, element stores, stores through bad indices, string element store (must be a parse error) and freshness of slices; expected result computed from the law " +
			"in the statement (reference NormIndex/SliceVal). Non-trivial = the container is non-empty or the operation must fail.",
		Assumptions: []string{"for integer-valued floats beyond ±2^62 either the bounds or the index-value panic is accepted (float→int conversion is implementation defined)"},
		TrustedBase: []string{"reference index/slice law in /verif/mc/ref/interp.go (NormIndex, SliceVal)", "[]rune conversion for code points"},
		Run:         runC11,
		Replay: func(sub string, in json.RawMessage) *fw.Violation {
			var d DiffInput
			json.Unmarshal(in, &d)
			if sub == "string-store" {
				return c11StringStore(d.Src)
			}
			return replayDiff(sub, d)
		},
		DeadlineQuick: 4 * time.Minute, DeadlineThorough: 20 * time.Minute,
		Vacuity: func(m *fw.Result) string {
			for _, o := range []string{"ok", "panic:bounds", "panic:index-value", "panic:slice"} {
				if m.Outcomes[o] == 0 {
					return "outcome never observed: " + o
				}
			}
			return ""
		},
	})
}

func numExpr(f float64) pt.Expr {
	switch {
	case math.IsNaN(f):
		return pt.Group{X: pt.Bin("/", pt.N(0), pt.N(0))}
	case math.IsInf(f, 1):
		return pt.Group{X: pt.Bin("/", pt.N(1), pt.N(0))}
	case math.IsInf(f, -1):
		return pt.Group{X: pt.Bin("/", pt.N(-1), pt.N(0))}
	}
	return pt.N(f)
}

func c11Indices(n int) []float64 {
	var out []float64
	for i := -n - 2; i <= n+2; i++ {
		out = append(out, float64(i))
	}
	// values one rounding step away from an integer: not integers, whatever arithmetic the bounds check uses
	out = append(out, -0.9999999999999999, 0.9999999999999999, -1e-17, 1e-17, -1.0000000000000002, math.Nextafter(float64(n), 0), math.Nextafter(-float64(n), 0), 0.3-0.1-0.2)
	return append(out, 0.5, -0.5, float64(n)-0.5, 1e18, -1e18, math.Pow(2, 63), -math.Pow(2, 63), 1e300, math.NaN(), math.Inf(1), math.Inf(-1))
}

func runC11(w *fw.Worker) {
	maxLen := 4
	if !w.Quick() {
		maxLen = 5
	}
	chars := []string{"a", "é", "😀"}
	var strs []string
	var gen func(p string, n int)
	gen = func(p string, n int) {
		strs = append(strs, p)
		if n == 0 {
			return
		}
		for _, c := range chars {
			gen(p+c, n-1)
		}
	}
	gen("", maxLen)
	type cont struct {
		lit pt.Expr
		n   int
		str bool
	}
	var conts []cont
	for _, s := range strs {
		conts = append(conts, cont{pt.S(s), len([]rune(s)), true})
	}
	for n := 0; n <= maxLen+1; n++ {
		var nums, ss, nested, anys []pt.Expr
		for i := 0; i < n; i++ {
			nums = append(nums, pt.N(float64(10*(i+1))))
			ss = append(ss, pt.S(strings.Repeat("x", i+1)))
			nested = append(nested, pt.A(pt.N(float64(i))))
			if i%2 == 0 {
				anys = append(anys, pt.N(float64(i)))
			} else {
				anys = append(anys, pt.S("s"))
			}
		}
		conts = append(conts, cont{pt.ArrLit{Els: nums}, n, false})
		if n > 0 {
			conts = append(conts, cont{pt.ArrLit{Els: ss}, n, false}, cont{pt.ArrLit{Els: nested}, n, false})
			if n > 1 {
				conts = append(conts, cont{pt.ArrLit{Els: anys}, n, false})
			}
		}
	}
	do := func(sub string, nontrivial bool, stmts ...pt.Stmt) {
		prog := &pt.Prog{Stmts: stmts}
		src := pt.Source(prog)
		w.Case(src, func() *fw.Violation {
			if nontrivial {
				w.Nontrivial()
			}
			v, _ := diffProg(w, sub, src, prog, nil)
			if len(src) < 60 {
				w.Sample(src)
			}
			return v
		})
	}
	for _, c := range conts {
		if w.Expired() {
			return
		}
		idx := c11Indices(c.n)
		decl := pt.InferDecl{Name: "s", X: c.lit}
		for _, i := range idx {
			// literal index, computed index
			do("index", c.n > 0, decl, pt.Print(pt.S("v"), pt.Index{X: pt.V("s"), I: numExpr(i)}))
			do("index", c.n > 0, decl, pt.InferDecl{Name: "i", X: numExpr(i)}, pt.Print(pt.S("v"), pt.Index{X: pt.V("s"), I: pt.V("i")}))
			if !c.str && c.n > 0 {
				// element store through the index, then observe
				el := c.lit.(pt.ArrLit).Els[0]
				do("store", true, decl, pt.Assign{Target: pt.Index{X: pt.V("s"), I: numExpr(i)}, X: el}, pt.Print(pt.V("s")))
			}
		}
		// slices: all pairs plus missing
		bounds := append([]float64(nil), idx...)
		for ai := -1; ai < len(bounds); ai++ {
			for bi := -1; bi < len(bounds); bi++ {
				sl := pt.Slice{X: pt.V("s")}
				if ai >= 0 {
					sl.Lo = numExpr(bounds[ai])
				}
				if bi >= 0 {
					sl.Hi = numExpr(bounds[bi])
				}
				if c.n > 3 && c.str && (ai+bi)%2 == 1 {
					continue // longest strings: every second pair of bounds (all bounds still occur on both sides)
				}
				do("slice", c.n > 0, decl, pt.Print(pt.S("v"), sl))
			}
		}
		if !c.str && c.n > 0 {
			// freshness: mutate the slice, observe the original, and vice versa
			el := c.lit.(pt.ArrLit).Els[c.n-1]
			for _, lo := range []float64{0, 1, -1} {
				do("fresh", true, decl, pt.InferDecl{Name: "b", X: pt.Slice{X: pt.V("s"), Lo: pt.N(0)}},
					pt.Assign{Target: pt.Index{X: pt.V("b"), I: pt.N(lo)}, X: el}, pt.Print(pt.V("s"), pt.V("b")))
				do("fresh", true, decl, pt.InferDecl{Name: "b", X: pt.Slice{X: pt.V("s")}},
					pt.Assign{Target: pt.Index{X: pt.V("s"), I: pt.N(lo)}, X: el}, pt.Print(pt.V("s"), pt.V("b")))
			}
		}
		if c.str {
			// string element store is a static error
			src := pt.Source(&pt.Prog{Stmts: []pt.Stmt{decl, pt.Raw{Text: `s[0] = "x"`}, pt.Print(pt.V("s"))}})
			w.Case(src, func() *fw.Violation { w.Nontrivial(); return c11StringStore(src) })
		}
	}
	// strings that change in place (errmsg is rewritten by every conversion): the code-point view follows the current text
	msgs := []string{"x", "é€😀", "", "1"}
	for _, a := range msgs {
		for _, b := range msgs {
			var stmts []pt.Stmt
			for step, txt := range []string{a, b} {
				stmts = append(stmts, pt.InferDecl{Name: fmt.Sprint("n", step), X: pt.C("str2num", pt.S(txt))}, pt.Print(pt.V(fmt.Sprint("n", step)), pt.C("len", pt.V("errmsg"))),
					pt.If{Conds: []pt.Expr{pt.Bin(">", pt.C("len", pt.V("errmsg")), pt.N(9))}, Blocks: [][]pt.Stmt{{
						pt.Print(pt.Index{X: pt.V("errmsg"), I: pt.N(0)}, pt.Index{X: pt.V("errmsg"), I: pt.N(-2)}, pt.Index{X: pt.V("errmsg"), I: pt.N(-1)}, pt.Slice{X: pt.V("errmsg"), Lo: pt.N(-4)},
							pt.Slice{X: pt.V("errmsg"), Lo: pt.N(3), Hi: pt.N(9)}),
						pt.For{Var: "c", Range: []pt.Expr{pt.Slice{X: pt.V("errmsg"), Lo: pt.N(-3)}}, Body: []pt.Stmt{pt.Print(pt.S("c"), pt.V("c"))}},
						pt.InferDecl{Name: fmt.Sprint("all", step), X: pt.S("")},
						pt.For{Var: "c", Range: []pt.Expr{pt.V("errmsg")}, Body: []pt.Stmt{pt.Assign{Target: pt.V(fmt.Sprint("all", step)), X: pt.Bin("+", pt.V(fmt.Sprint("all", step)), pt.Bin("+", pt.V("c"), pt.S("|")))}}},
						pt.Print(pt.S("all"), pt.V(fmt.Sprint("all", step)))}},
						Else: []pt.Stmt{pt.Print(pt.S("short"), pt.Slice{X: pt.V("errmsg")}), pt.For{Var: "c", Range: []pt.Expr{pt.V("errmsg")}, Body: []pt.Stmt{pt.Print(pt.S("c"), pt.V("c"))}}}})
			}
			do("errmsg-view", true, stmts...)
		}
	}
	for _, src := range c11NestedStringStores {
		src := src
		w.Case(src, func() *fw.Violation { w.Nontrivial(); w.Count("nested-string-store", 1); return c11StringStore(src) })
	}
}

// c11NestedStringStores are string element stores reached through containers; each is a static error.
var c11NestedStringStores = []string{
	"ws := [\"ab\" \"cd\"]\nws[0][1] = \"x\"\nprint ws\n",
	"ws := [\"ab\" \"cd\"]\nws[-1][0] = \"x\"\nprint ws\n",
	"m := {k:\"ab\"}\nm.k[0] = \"x\"\nprint m\n",
	"m := {k:\"ab\"}\nm[\"k\"][0] = \"x\"\nprint m\n",
	"n := [[\"ab\"]]\nn[0][0][1] = \"x\"\nprint n\n",
	"mm := {a:[\"ab\"]}\nmm.a[0][0] = \"x\"\nprint mm\n",
	"am := [{k:\"ab\"}]\nam[0].k[1] = \"x\"\nprint am\n",
	"s := \"ab\"\ns[-1] = \"x\"\nprint s\n",
	"s := \"ab\"\ni := 1\ns[i] = \"x\"\nprint s\n",
	"func f ws:[]string\n    ws[0][0] = \"x\"\nend\nf [\"ab\"]\n",
	"for w := range [\"ab\"]\n    w[0] = \"x\"\nend\n",
}

func c11StringStore(src string) *fw.Violation {
	o := run.Run(src, run.Opts{})
	if o.Class != "parse-error" || len(o.Trace) != 0 {
		return &fw.Violation{Sub: "string-store", Signature: "string-element-store-accepted", What: "assignment to a string element must be a parse error", Input: DiffInput{Src: src},
			Expected: "parse-error, no effects", Observed: fmt.Sprint(o.Class, " ", o.Err, " ", run.Show(o.Trace))}
	}
	return nil
}
