package checks

import (
	"encoding/json"
	"fmt"
	"regexp"
	"strconv"
	"strings"
	"time"

	"verif/mc/astconv"
	"verif/mc/corpus"
	"verif/mc/fw"
	"verif/mc/pt"
	"verif/mc/ref"
	"verif/mc/run"
)

// C06 — formatting changes nothing but whitespace. C07 — formatting is canonical and idempotent.
// Both enumerate the same sources: program trees x all layouts with <= d deviations from the canonical layout.

func init() {
	rule := "sources = program trees (all nestings to depth 1 (quick) / 2 (thorough) with the C10 feature menu, expression-rich statements covering every expression kind in every " +
		"statement context, typed functions, variadics, handlers, keyword map keys, non-canonical number and string spellings, the hand-written seed corpus) x ALL layouts with at most 1 (quick) / 2 " +
		"(thorough, smallest trees) deviations from the canonical layout: amount/presence of whitespace at every optional position, trailing comment at every line end, blank-line runs " +
		"0-3 and own-line comments between any two lines, newline / comment / blank line at every position inside array and map literals, tabs, CR before LF. "
	fw.Register(&fw.Check{
		ID:    "C06",
		Level: "exploration",
		Rule: rule + "Oracle: tokens(Format(src)) = tokens(src) after dropping whitespace and normalising literals by value (independent tokenizer) - nothing dropped or rewritten; " +
			"Format(src) parses; its syntax tree dump equals that of src; running both under the recorder gives identical traces; plus NUL bytes inserted at every token boundary of the " +
			"seeds (accepted text may never be dropped); plus every seed with one stray token appended to a line or one punctuation token replaced by another - whatever of these the parser " +
			"accepts goes through the same oracle. Non-trivial = the layout deviates from the canonical one.",
		Assumptions: []string{"accepted texts that no legal layout of a generated tree produces are not explored (texts accepted by mistake are reached through C05's mutants)"},
		TrustedBase: []string{"independent tokenizer in /verif/mc/checks/c06.go", "strconv for literal normalisation"},
		Run:         func(w *fw.Worker) { runLayouts(w, "C06") },
		Replay: func(sub string, in json.RawMessage) *fw.Violation {
			var d DiffInput
			json.Unmarshal(in, &d)
			return checkC06(nil, d.Src)
		},
		DeadlineQuick: 5 * time.Minute, DeadlineThorough: 25 * time.Minute,
		Vacuity: func(m *fw.Result) string {
			if m.Nontrivial < 20000 || m.Counters["with-comment"] < 1000 || m.Counters["multiline-literal"] < 500 {
				return fmt.Sprint("layout space degenerate: ", m.Nontrivial, m.Counters)
			}
			return ""
		},
	})
	fw.Register(&fw.Check{
		ID:    "C07",
		Level: "exploration",
		Rule: rule + "Oracle: Format(Format(src)) = Format(src); every layout variant formats to the same text as its whitespace-equivalent base (same tree, same comments, same " +
			"presence of blank runs and literal newlines, canonical amounts); the text is indented 4 spaces per block/literal level (recomputed from the text), has no trailing whitespace, " +
			"never two consecutive blank lines, ends with exactly one newline; Format applied three times to the SAME Program object gives the same text each time; `evy fmt -c` (file and " +
			"stdin) exits 0 on Format(src) and 1 on every src != Format(src), modifying nothing; `evy fmt -c` over every list of 1..3 files out of {formatted, unformatted} x {.evy, .txtar} " +
			"exits 0 exactly when all are formatted. " +
			"Non-trivial = the layout deviates from the canonical one.",
		Assumptions: []string{"CLI runs are made for a deterministic subset (every n-th source)"},
		TrustedBase: []string{"independent tokenizer / indentation recomputation in /verif/mc/checks/c06.go"},
		Run:         func(w *fw.Worker) { runLayouts(w, "C07") },
		Replay: func(sub string, in json.RawMessage) *fw.Violation {
			var d c07Input
			json.Unmarshal(in, &d)
			return checkC07(nil, d, true)
		},
		DeadlineQuick: 5 * time.Minute, DeadlineThorough: 25 * time.Minute,
		Vacuity: func(m *fw.Result) string {
			if m.Nontrivial < 20000 || m.Counters["cli-runs"] < 20 || m.Counters["class-compared"] < 10000 {
				return fmt.Sprint("layout space degenerate: ", m.Nontrivial, m.Counters)
			}
			return ""
		},
	})
}

type c07Input struct {
	Src  string `json:"src"`
	Base string `json:"base"`
}

// ---- independent tokenizer ---------------------------------------------------------------

var tokRe = regexp.MustCompile(`(?s)\A(?:"(?:\\.|[^"\\\n])*"|//[^\n]*|[0-9][0-9.]*|[\pL_][\pL\p{Nd}_]*|:=|==|!=|<=|>=|\.\.\.|[-+*/%<>=!:.()\[\]{}]|\x00)`)

// tokens splits src into normalised non-whitespace tokens; ok=false if something cannot be tokenised.
func tokens(src string) ([]string, bool) {
	var out []string
	for len(src) > 0 {
		switch src[0] {
		case ' ', '\t', '\n', '\r':
			src = src[1:]
			continue
		}
		m := tokRe.FindString(src)
		if m == "" {
			return out, false
		}
		src = src[len(m):]
		switch {
		case m[0] == '"':
			if u, err := strconv.Unquote(m); err == nil {
				m = "S:" + u
			}
		case strings.HasPrefix(m, "//"):
			m = "C:" + strings.TrimSpace(m)
		case m[0] >= '0' && m[0] <= '9':
			if f, err := strconv.ParseFloat(m, 64); err == nil {
				m = "N:" + strconv.FormatFloat(f, 'g', -1, 64)
			}
		}
		out = append(out, m)
	}
	return out, true
}

// ---- source enumeration ------------------------------------------------------------------

func c06Trees(w *fw.Worker) []*pt.Prog {
	var out []*pt.Prog
	depth := 1
	if !w.Quick() {
		depth = 2
	}
	for d := 0; d <= depth; d++ {
		bound := -1
		if d == 2 {
			bound = 3
		}
		fw.Explore(bound, func(c *fw.Ctx) {
			g := &c10gen{c: c}
			body := g.block(d, c10ctx{})
			stmts := []pt.Stmt{pt.InferDecl{Name: "g", X: pt.N(0)}}
			stmts = append(stmts, body...)
			stmts = append(stmts, pt.Print(pt.S("end"), pt.V("g")))
			stmts = append(stmts, g.funcs...)
			p := &pt.Prog{Stmts: stmts}
			if ref.Check(p) == nil {
				out = append(out, p)
			}
		}, nil)
	}
	// expression-rich programs: every expression kind in every statement context
	exprProgs := []string{
		"a := [1 2 3]\nm := {for:1 end:2 a:3}\ns := \"héllo\"\nx:any\nx = a\nprint a[0] a[1:2] a[:1] a[1:] m.for m[\"end\"] s[1] s[1:3] x.([]num)[0] (len a) -a[0] !(a[0] > 1)\n",
		"n := 1.0\nk := 007\nf := 1.50\nt := \"\\x41\\tb\\u00e9\"\nprint n k f t \"a\\\"b\" 2.\n",
		"a := [[1 2] [3]]\na[0][1] = 5\nm := {a:{b:1}}\nm.a.b = 2\nm[\"a\"][\"c\"] = 3\nprint a m a[0][1]+m.a.b*2 ((a[0][1] + m.a.b) * 2)\n",
		"func add:num a:num b:num\n    return a + b\nend\nfunc none\n    return\nend\nfunc v:[]any xs:any...\n    return xs\nend\nnone\nprint (add 1 2) (add (add 1 2) 3) (v) (v 1 \"a\" [1]) (typeof (v))\n",
		"x := 10\nif x > 5 and x < 20 or x == 0\n    print \"a\" x%3 x/2 x-1 x*2 -x\nelse if !(x >= 1) or x != 2 and x <= 3\n    print \"b\"\nelse\n    print \"c\"\nend\n",
		"on key k:string\n    print k\nend\non down _:num y:num\n    print y\nend\non animate\n    print 1\nend\nprint \"top\"\n",
		"arr:[]{}any\narr = [{a:1} {b:[1 2 {}]} {}]\nfor e := range arr\n    for k := range e\n        print k e[k]\n    end\nend\nfor i := range 1 10 3\n    print i\nend\nfor range 2\n    print \"x\"\nend\n",
		"i := 0\nwhile i < 3\n    i = i + 1\n    if i == 2\n        break\n    end\nend\nprint i [1]+[2] [0]*3 []+[1] \"a\"+\"b\" \"a\"<\"b\" ([] == []) ({} == {})\n",
		"test 1 1\ntest true\nprintf \"%v %s\\n\" 1 \"a\"\nr := read\nprint r (str2num \"1\") err errmsg (sprint 1 2) (join [1 2] \",\")\n",
	}
	// word operators in whitespace-sensitive positions (call arguments, array elements, map values, range arguments): built as trees,
	// because a parsed tree keeps the parentheses as Group nodes and would never reach the printer's tight and/or layouts
	{
		a, b := pt.V("a"), pt.V("b")
		and, or := pt.Bin("and", a, b), pt.Bin("or", pt.Index{X: pt.V("fl"), I: pt.N(0)}, pt.Unary{Op: "!", X: b})
		mixed := pt.Bin("or", pt.Bin("==", pt.S("x"), pt.S("y")), pt.Bin("and", a, pt.Bin("<", pt.N(1), pt.N(2))))
		out = append(out, &pt.Prog{Stmts: []pt.Stmt{
			pt.InferDecl{Name: "a", X: pt.B(true)}, pt.InferDecl{Name: "b", X: pt.B(false)}, pt.InferDecl{Name: "fl", X: pt.A(pt.B(true), pt.B(false))},
			pt.Print(and, or, mixed),
			pt.InferDecl{Name: "cs", X: pt.A(or, and)}, pt.InferDecl{Name: "mp", X: pt.M("k", and, "j", mixed)},
			pt.Print(pt.V("cs"), pt.V("mp"), pt.C("len", pt.A(and))),
			pt.If{Conds: []pt.Expr{and, or}, Blocks: [][]pt.Stmt{{pt.Print(pt.S("p"))}, {pt.Print(pt.S("q"), mixed)}}},
		}})
	}
	// ten block levels with a multi-line literal at the bottom: indentation is per level at every depth
	{
		inner := []pt.Stmt{pt.InferDecl{Name: "pts", X: pt.A(pt.V("g"), pt.N(1))}, pt.Print(pt.S("deep"), pt.V("pts"), pt.M("k", pt.A(pt.N(1), pt.N(2)), "j", pt.M()))}
		for lvl := 0; lvl < 10; lvl++ {
			switch lvl % 4 {
			case 0:
				inner = []pt.Stmt{pt.If{Conds: []pt.Expr{pt.Bin("<", pt.V("g"), pt.N(5))}, Blocks: [][]pt.Stmt{inner}, Else: []pt.Stmt{pt.Print(pt.S("else"), pt.N(float64(lvl)))}}}
			case 1:
				inner = []pt.Stmt{pt.For{Var: fmt.Sprint("i", lvl), Range: []pt.Expr{pt.N(1)}, Body: append([]pt.Stmt{pt.Print(pt.V(fmt.Sprint("i", lvl)))}, inner...)}}
			case 2:
				inner = []pt.Stmt{pt.While{Cond: pt.B(true), Body: append(inner, pt.Break{})}}
			case 3:
				inner = []pt.Stmt{pt.If{Conds: []pt.Expr{pt.B(false), pt.B(true)}, Blocks: [][]pt.Stmt{{pt.Print(pt.S("no"))}, inner}}}
			}
		}
		out = append(out, &pt.Prog{Stmts: append([]pt.Stmt{pt.InferDecl{Name: "g", X: pt.N(0)}}, inner...)})
	}
	srcs := append(append([]string(nil), corpus.Seeds...), exprProgs...)
	for _, s := range srcs {
		prog, errs, _ := run.Parse(s)
		if prog == nil {
			// never on the tree these sources were written for (go test -tags verif ./checks audits that); a tree whose parser rejects
			// one of them deviates in what it ACCEPTS, which other properties judge - here the source is left out and the run says so
			w.Count("hand-written-source-rejected", 1)
			w.NotExhaustive("a hand-written source is not accepted by this tree's parser and was left out: " + fw.FirstLine(fmt.Sprint(errs)) + " in " + fw.Trunc(s, 60))
			continue
		}
		p, err := astconv.Prog(prog)
		if err != nil {
			w.Internal("C06/C07: a hand-written source cannot be converted to a tree: " + err.Error() + "\n" + s)
			continue
		}
		out = append(out, p)
	}
	return out
}

func runLayouts(w *fw.Worker, id string) {
	trees := c06Trees(w)
	cliN := 0
	for ti, tree := range trees {
		if w.Expired() {
			return
		}
		tree := tree
		// size of the tree decides the deviation bound
		base0 := pt.Source(tree)
		bound := 1
		if !w.Quick() && len(base0) < 160 {
			bound = 2
		}
		fw.Explore(bound, func(c *fw.Ctx) {
			if w.Expired() {
				return
			}
			var labels []string
			var made []int
			pr := &pt.Printer{Horizontal: true, Vertical: true, Comments: true, Multiline: true}
			pr.Ch = func(n int, label string) int {
				v := c.Choose(n, label)
				labels = append(labels, label)
				made = append(made, v)
				return v
			}
			src := pr.Program(tree)
			dev := c.Deviations()
			switch id {
			case "C06":
				w.Case(src, func() *fw.Violation {
					if dev > 0 {
						w.Nontrivial()
					}
					if strings.Contains(src, "//") {
						w.Count("with-comment", 1)
					}
					if litNewline(labels, made) {
						w.Count("multiline-literal", 1)
					}
					if dev == 1 && ti%40 == 0 {
						w.Sample(src)
					}
					return checkC06(w, src)
				})
			case "C07":
				// whitespace-equivalent base: same structural choices, canonical amounts
				i := 0
				bp := &pt.Printer{Horizontal: true, Vertical: true, Comments: true, Multiline: true}
				bp.Ch = func(n int, label string) int {
					v := made[i]
					i++
					return baseChoice(label, v)
				}
				base := bp.Program(tree)
				in := c07Input{src, base}
				cliN++
				stride := 300
				if !w.Quick() {
					stride = 60
				}
				cli := cliN%stride == 0 || endLayout(labels, made) // every layout that differs at the end of the file goes through the CLI
				w.Case(src, func() *fw.Violation {
					if dev > 0 {
						w.Nontrivial()
					}
					if dev == 1 && ti%40 == 0 {
						w.Sample(in)
					}
					return checkC07(w, in, cli)
				})
			}
		}, func(*fw.Ctx) bool { return !w.Expired() })
	}
	if id == "C07" {
		// check mode over several files: exit status 0 exactly when every file is in formatted form; nothing is modified
		kinds := []struct{ name, text string }{
			{"good%d.evy", "x := 1\nprint x\n"},
			{"bad%d.evy", "x:=1\nprint   x\n"},
			{"good%d.txtar", "-- a.evy --\nx := 1\nprint x\n-- note.txt --\nkeep   me\n"},
			{"bad%d.txtar", "-- a.evy --\nx := 1\nprint x\n-- b.evy --\ny:=2\nprint y\n"},
			{"good-two%d.txtar", "-- a.evy --\nx := 1\nprint x\n-- b.evy --\ny := 2\nprint y\n"},
			{"bad-first%d.txtar", "-- a.evy --\nx:=1\nprint x\n-- b.evy --\ny := 2\nprint y\n"}, // the LAST member is formatted, an earlier one is not
		}
		var seq func(prefix []int)
		seq = func(prefix []int) {
			if len(prefix) > 0 {
				names, texts, allGood := []string{}, []string{}, true
				for i, k := range prefix {
					names = append(names, fmt.Sprintf(kinds[k].name, i))
					texts = append(texts, kinds[k].text)
					allGood = allGood && k%2 == 0
				}
				in := c07Input{Src: strings.Join(names, " ")}
				w.Case("check-files\x00"+in.Src, func() *fw.Violation {
					w.Nontrivial()
					w.Count("check-mode-file-lists", 1)
					_, code, after, err := runEvyFiles([]string{"fmt", "-c"}, names, texts)
					if err != nil {
						panic(err)
					}
					for i := range after {
						if after[i] != texts[i] {
							return &fw.Violation{Sub: "check-files", Signature: "fmt-check-modifies", What: "evy fmt -c modified a file", Input: in, Expected: texts[i], Observed: after[i]}
						}
					}
					if (code == 0) != allGood {
						return &fw.Violation{Sub: "check-files", Signature: "fmt-check-exit-status", What: "evy fmt -c over several files: exit status 0 exactly when every file is formatted", Input: in,
							Expected: fmt.Sprint("all formatted=", allGood), Observed: fmt.Sprint("exit ", code)}
					}
					return nil
				})
			}
			if len(prefix) == 3 {
				return
			}
			for k := range kinds {
				seq(append(append([]int(nil), prefix...), k))
			}
		}
		seq(nil)
	}
	if id == "C06" {
		// single-token damage: a stray token at the end of a line, or one punctuation token replaced by another. Most of these are
		// rejected; whatever the parser ACCEPTS must survive formatting like any other accepted text (every token represented)
		for _, s := range corpus.Seeds {
			for _, m := range c06TokenMutants(s) {
				m := m
				w.Case("mut\x00"+m, func() *fw.Violation {
					w.Nontrivial()
					if prog, _, _ := run.Parse(m); prog == nil {
						w.Count("damaged-rejected", 1)
						return nil
					}
					w.Count("damaged-accepted", 1)
					return checkC06(w, m)
				})
			}
		}
		// NUL bytes at token boundaries: accepted text is never dropped
		for _, s := range corpus.Seeds {
			toks := lexTexts(s)
			for i := range toks {
				m := joinExcept(toks, i, []string{"\x00", toks[i]})
				w.Case(m, func() *fw.Violation { w.Nontrivial(); w.Count("nul-inserted", 1); return checkC06(w, m) })
			}
		}
	}
}

var c06Punct = []string{":", "=", ":=", ".", "...", "(", ")", "[", "]", "{", "}", "+", "-", "*", "/", "!", "==", "<"}

// c06TokenMutants returns src with one stray token appended to a line, or one punctuation token replaced by another.
func c06TokenMutants(src string) []string {
	var out []string
	lines := strings.Split(strings.TrimSuffix(src, "\n"), "\n")
	for i, l := range lines {
		if strings.TrimSpace(l) == "" {
			continue
		}
		for _, tok := range []string{")", "]", "}", ") 1", "] print 2", "} x", "end", ": num", "= 1"} {
			m := append([]string(nil), lines...)
			m[i] = l + " " + tok
			out = append(out, strings.Join(m, "\n")+"\n")
		}
	}
	toks := lexTexts(src)
	for i, t := range toks {
		core := strings.TrimRight(t, " \t")
		isPunct := false
		for _, p := range c06Punct {
			isPunct = isPunct || p == core
		}
		if !isPunct {
			continue
		}
		for _, r := range c06Punct {
			if r != core {
				out = append(out, joinExcept(toks, i, []string{r + t[len(core):]}))
			}
		}
	}
	return out
}

func endLayout(labels []string, made []int) bool {
	for i, l := range labels {
		if (l == "no-final-newline" || l == "vertical:file-end") && made[i] != 0 {
			return true
		}
	}
	return false
}

func litNewline(labels []string, made []int) bool {
	for i, l := range labels {
		if strings.HasPrefix(l, "lit-") && made[i] != 0 {
			return true
		}
	}
	return false
}

// baseChoice maps a layout choice to its whitespace-equivalence class representative: horizontal
// amounts become canonical, blank-line runs of length 2 or 3 become 1; everything that adds or removes
// a comment, a first blank line or a newline inside a literal is kept.
func baseChoice(label string, v int) int {
	switch {
	case strings.HasPrefix(label, "ws-"):
		return 0
	case strings.HasPrefix(label, "vertical:"):
		if v == 2 || v == 3 {
			return 1
		}
	case label == "no-final-newline":
		return 0
	case label == "trailing-comment":
		if v == 2 { // blanks after the comment text are not part of the comment
			return 1
		}
	}
	return v // newlines, blank lines and comments inside literals are structural (a blank line inside a literal is kept)
}

// ---- C06 oracle ----------------------------------------------------------------------------

func checkC06(w *fw.Worker, src string) *fw.Violation {
	in := DiffInput{Src: src}
	viol := func(sig, what, exp, obs string) *fw.Violation {
		return &fw.Violation{Sub: "format", Signature: sig, What: what, Input: in, Expected: exp, Observed: obs}
	}
	prog, errs, gp := run.Parse(src)
	if gp != "" {
		return viol("parser-gopanic:"+run.PanicSite(gp), "parser panicked", "", gp)
	}
	if prog == nil {
		if strings.Contains(src, "\x00") {
			return nil // rejecting a NUL byte is fine
		}
		if w != nil {
			w.Count("rejected-layout", 1)
		}
		return viol("legal-layout-rejected:"+msgKind(stripLoc(fw.FirstLine(errs.Error()))), "a legal layout of a valid program is rejected by the parser", "accepted", errs.Error())
	}
	var out string
	func() {
		defer func() {
			if r := recover(); r != nil {
				gp = fmt.Sprint(r)
			}
		}()
		out = prog.Format()
	}()
	if gp != "" {
		return viol("format-gopanic", "Format panicked", "", gp)
	}
	ts, ok1 := tokens(src)
	to, ok2 := tokens(out)
	if !ok1 {
		panic("C06: tokenizer cannot split generated source: " + src)
	}
	if !ok2 || strings.Join(ts, "\x1f") != strings.Join(to, "\x1f") {
		d := firstDiff(ts, to)
		return viol("tokens-changed:"+tokClass(ts, to), "formatting dropped, added or rewrote a non-whitespace token", "same token sequence", fmt.Sprintf("first difference at token %d: %q -> %q\nformatted:\n%s", d, at(ts, d), at(to, d), out))
	}
	prog2, errs2, gp2 := run.Parse(out)
	if prog2 == nil {
		return viol("formatted-not-accepted", "the formatted text is not accepted again", "accepted", fmt.Sprint(errs2, gp2, "\nformatted:\n", out))
	}
	if dropEmptyLines(prog.String()) != dropEmptyLines(prog2.String()) {
		return viol("tree-changed", "the formatted text has a different syntax tree", prog.String(), prog2.String())
	}
	a := run.Run(src, run.Opts{Budget: 3000, Inputs: []string{"in"}})
	b := run.Run(out, run.Opts{Budget: 3000, Inputs: []string{"in"}})
	if a.Class != b.Class || run.TraceString(a.Trace) != run.TraceString(b.Trace) {
		return viol("behaviour-changed", "source and formatted source behave differently", a.Class+" "+run.Show(a.Trace), b.Class+" "+run.Show(b.Trace))
	}
	return nil
}

// dropEmptyLines removes the empty statements (blank source lines) from a syntax tree dump.
func dropEmptyLines(s string) string {
	var out []string
	for _, l := range strings.Split(s, "\n") {
		if strings.TrimSpace(l) != "" {
			out = append(out, l)
		}
	}
	return strings.Join(out, "\n")
}

func at(ts []string, i int) string {
	if i < len(ts) {
		return ts[i]
	}
	return "<end>"
}

func firstDiff(a, b []string) int {
	for i := 0; i < len(a) && i < len(b); i++ {
		if a[i] != b[i] {
			return i
		}
	}
	if len(a) < len(b) {
		return len(a)
	}
	return len(b)
}

func tokClass(a, b []string) string {
	d := firstDiff(a, b)
	t := at(a, d)
	switch {
	case strings.HasPrefix(t, "C:"):
		return "comment"
	case strings.HasPrefix(t, "S:"):
		return "string"
	case strings.HasPrefix(t, "N:"):
		return "number"
	case t == "\x00":
		return "nul"
	}
	return "token"
}

// ---- C07 oracle ----------------------------------------------------------------------------

func format(src string) (string, bool) {
	prog, _, _ := run.Parse(src)
	if prog == nil {
		return "", false
	}
	return prog.Format(), true
}

func checkC07(w *fw.Worker, in c07Input, cli bool) *fw.Violation {
	viol := func(sig, what, exp, obs string) *fw.Violation {
		return &fw.Violation{Sub: "canonical", Signature: sig, What: what, Input: in, Expected: exp, Observed: obs}
	}
	f1, ok := format(in.Src)
	if !ok {
		return nil // C06 reports rejected layouts
	}
	// the same Program formatted repeatedly gives the same text each time (Format must not consume its own layout tables)
	if prog, _, _ := run.Parse(in.Src); prog != nil {
		var again [2]string
		var gp string
		func() {
			defer func() {
				if r := recover(); r != nil {
					gp = fmt.Sprint(r)
				}
			}()
			again[0] = prog.Format()
			again[1] = prog.Format()
			again[1] = prog.Format()
		}()
		if gp != "" {
			return viol("format-again-gopanic", "Format panicked when applied again to the same Program", f1, gp)
		}
		if again[0] != f1 || again[1] != f1 {
			return viol("format-again-differs", "Format applied repeatedly to the same Program gives different text", f1, again[0]+"\n----\n"+again[1])
		}
	}
	f2, ok := format(f1)
	if !ok {
		return nil // C06 reports it
	}
	if f1 != f2 {
		return viol("not-idempotent", "formatting twice differs from formatting once", f1, f2)
	}
	if in.Base != "" {
		fb, ok := format(in.Base)
		if ok {
			if w != nil {
				w.Count("class-compared", 1)
			}
			if fb != f1 {
				return viol("not-canonical", "two programs that differ only in the amount of optional whitespace / length of blank-line runs format differently", fb, f1)
			}
		}
	}
	if sig, msg := canonicalForm(in.Src, f1); sig != "" {
		return viol(sig, "formatted text is not in canonical form: "+msg, "4 spaces per level, no trailing whitespace, no two blank lines, exactly one final newline", f1)
	}
	if cli {
		if w != nil {
			w.Count("cli-runs", 1)
		}
		_, _, code, err := runEvy([]string{"fmt", "-c"}, f1, "")
		if err != nil {
			panic(err)
		}
		if code != 0 {
			return viol("fmt-check-rejects-own-output", "evy fmt -c does not accept the formatter's own output", "exit 0", fmt.Sprint("exit ", code))
		}
		if in.Src != f1 {
			_, _, code, _ := runEvy([]string{"fmt", "-c"}, in.Src, "")
			if code == 0 {
				return viol("fmt-check-accepts-unformatted", "evy fmt -c accepts text that is not in formatted form", "exit 1", "exit 0")
			}
		}
	}
	return nil
}

var (
	openRe  = regexp.MustCompile(`^(if|while|for|func|on)\b`)
	elseRe  = regexp.MustCompile(`^else\b`)
	endRe   = regexp.MustCompile(`^end\b`)
	blankRe = regexp.MustCompile(`\n\n\n`)
)

// canonicalForm checks the layout properties of formatted text on the text itself.
func canonicalForm(src, out string) (sig, msg string) {
	if !strings.HasSuffix(out, "\n") {
		return "no-final-newline", "does not end with a newline"
	}
	if blankRe.MatchString(out) {
		return "two-blank-lines", "two consecutive blank lines"
	}
	depth := 0     // block depth
	bracket := 0   // open literal brackets carried over from previous lines
	stmtDepth := 0 // depth of the statement the current line belongs to
	for i, line := range strings.Split(strings.TrimSuffix(out, "\n"), "\n") {
		if line != strings.TrimRight(line, " \t\r") {
			return "trailing-whitespace", fmt.Sprintf("line %d has trailing whitespace", i+1)
		}
		if line == "" {
			continue
		}
		t := strings.TrimLeft(line, " \t")
		indent := line[:len(line)-len(t)]
		ts, _ := tokens(t)
		lead := 0 // closing brackets at the start of the line
		for _, tk := range ts {
			if tk == "]" || tk == "}" {
				lead++
			} else {
				break
			}
		}
		if bracket == 0 { // a new statement starts on this line
			stmtDepth = depth
			if elseRe.MatchString(t) || endRe.MatchString(t) {
				stmtDepth--
			}
			switch {
			case endRe.MatchString(t):
				depth--
			case openRe.MatchString(t):
				depth++
			}
		}
		want := strings.Repeat("    ", stmtDepth)
		if bracket == 0 && indent != want {
			return "indentation", fmt.Sprintf("line %d is indented %q, expected %q", i+1, indent, want)
		}
		if bracket > 0 {
			// continuation line inside a literal: the statement says nothing about how deep literal lines go;
			// required: a multiple of four, at least the block's indentation, at most one level per open bracket
			k := len(indent) / 4
			if strings.Trim(indent, " ") != "" || len(indent)%4 != 0 || k < stmtDepth || k > stmtDepth+bracket {
				return "indentation", fmt.Sprintf("line %d (inside a literal) is indented %q, expected %d..%d levels of 4 spaces", i+1, indent, stmtDepth, stmtDepth+bracket)
			}
		}
		_ = lead
		for _, tk := range ts {
			switch tk {
			case "[", "{":
				bracket++
			case "]", "}":
				bracket--
			}
		}
		if bracket < 0 {
			bracket = 0
		}
	}
	if strings.HasSuffix(out, "\n\n") && len(out) > 1 {
		// every other clause holds. Narrow class: exactly one kept blank line, and the source had a blank line after its last token
		if !strings.HasSuffix(out, "\n\n\n") && strings.HasSuffix(strings.TrimRight(src, " \t\r"), "\n\n") {
			return "fmt-trailing-blank-line", "ends with a blank line (two newlines)"
		}
		return "final-newlines", "ends with more than one newline"
	}
	return "", ""
}
