package checks

import (
	"bytes"
	"encoding/json"
	"encoding/xml"
	"fmt"
	"io"
	"math"
	"os"
	"os/exec"
	"path/filepath"
	"sort"
	"strconv"
	"strings"
	"time"

	"evylang.dev/evy/pkg/cli"
	"evylang.dev/evy/pkg/evaluator"
	"verif/mc/fw"
	"verif/mc/run"
)

// C19 — SVG output is well formed and shows exactly what was drawn.

func init() {
	fw.Register(&fw.Check{
		ID:    "C19",
		Level: "model_checking",
		Rule: "all sequences of length <= 3 (quick) / <= 4 (thorough, reduced alphabet at length 4) over an alphabet of ~55 drawing and style commands: move, line, rect (+/-), circle, poly (0, 2, 3 " +
			"vertices), ellipse (3/4/5/7 arguments), text (plain, empty, markup characters, ]]>, control character), clear (none / colour), grid, gridn (25, 30, 0.3, 0, -1, NaN; for spacings with exact multiples every single line of the grid is compared: position counted from the origin at the bottom left, every fifth one thick), color, stroke, " +
			"fill, width (1, 0, -1, NaN), dash (none, 1, 2 3), linecap, font (each property, valid and boundary values), two values each so that 'same as before', 'back to default' and 'new' " +
			"all occur. Each sequence runs through the real evaluator with the real SVG platform (cli.WithSVG) and WriteSVG; the text must parse as XML (encoding/xml; thorough also expat via " +
			"python); flattening <g> inheritance and root attributes must give exactly the shape list of the reference pen state machine (docs/builtins.md §Graphics): same order, one shape per " +
			"drawing command, geometry x10 with y flipped for every kind of shape, and the stroke / fill / width / dash / linecap / font in effect at drawing time. One representative per " +
			"command also goes through the evy run --svg-out binary; three drawings x seven ways a program can end (normally, exit 0/3, panic, failed test, index error, bad argument) x " +
			"--svg-out to a file and to stdout: the complete document of what was drawn is written and the exit status is the documented one. States = distinct reference pen states reached; transitions = commands executed against both.",
		Assumptions: []string{"colour strings are compared literally (CSS validity is the browser's business)", "the run is fenced (memory + watchdog) because an unbounded grid allocates without end"},
		TrustedBase: []string{"reference pen state machine in /verif/mc/checks/c19.go", "encoding/xml decoder (and expat in the thorough tier) for parsing the output"},
		Run:         runC19,
		Replay: func(sub string, in json.RawMessage) *fw.Violation {
			if sub == "svg-endings" {
				var e c19EndingInput
				json.Unmarshal(in, &e)
				return c19Ending(e)
			}
			var cmds []string
			json.Unmarshal(in, &cmds)
			return checkC19(nil, cmds, true)
		},
		Watchdog:      60 * time.Second,
		DeadlineQuick: 5 * time.Minute, DeadlineThorough: 25 * time.Minute,
		Vacuity: func(m *fw.Result) string {
			if m.Counters["shapes-compared"] < 50000 || m.Counters["states"] < 100 {
				return fmt.Sprint("too few shapes / states: ", m.Counters)
			}
			return ""
		},
	})
}

var c19Alphabet = []string{
	"move 10 20", "move 70 80", "line 30 40", "line 0 0", "rect 10 20", "rect -10 -5", "circle 5", "circle 0",
	"poly [10 10] [20 30] [40 10]", "poly [1 2] [3 4]", "poly",
	"ellipse 50 60 10", "ellipse 20 30 10 5", "ellipse 20 30 10 5 45", "ellipse 20 30 10 5 0 0 180",
	"text \"a\"", "text \"\"", "text \"<&\\\"'>\"", "text \"]]> \\t x\"",
	"clear", "clear \"blue\"", "grid", "gridn 25 \"red\"", "gridn 30 \"green\"",
	"color \"red\"", "color \"black\"", "stroke \"blue\"", "stroke \"black\"", "fill \"green\"", "fill \"none\"", "fill \"black\"",
	"width 1", "width 0.1", "width 0", "dash", "dash 1", "dash 2 3", "linecap \"butt\"", "linecap \"round\"",
	"font {size:3}", "font {size:6}", "font {family:\"serif\"}", "font {weight:700}", "font {weight:400}", "font {style:\"italic\"}", "font {style:\"normal\"}",
	"font {baseline:\"top\"}", "font {baseline:\"alphabetic\"}", "font {align:\"center\"}", "font {align:\"left\"}", "font {letterspacing:1}", "font {letterspacing:0}",
	"font {size:4 weight:100 align:\"right\" baseline:\"middle\"}",
}

// commands whose arguments are outside the documented domain: judged for termination / documented panic only
var c19Odd = []string{"gridn 0 \"red\"", "gridn -1 \"red\"", "gridn (0/0) \"red\"", "gridn 0.3 \"red\"", "width -1", "width (0/0)", "circle -1", "poly [1]", "ellipse 1 2", "ellipse 1 2 3 4 5 6",
	"font {size:0}", "font {bogus:1}", "font {align:\"up\"}", "clear \"a\" \"b\"", "move (1/0) 5", "line (0/0) 5"}

// c19RootAttrs: the style / width / height given for the top-level element appear on it verbatim (escaped), whatever characters they
// contain, and the document stays well formed; the drawing itself is the same as without them.
func c19RootAttrs(w *fw.Worker) {
	vals := []string{"", "400", "50%", "border: 1px solid red", "a\"b&c<d>'e", "€ ü"}
	for _, st := range vals {
		for _, wd := range vals[:4] {
			for _, ht := range []string{"", "30em"} {
				in := map[string]string{"style": st, "width": wd, "height": ht}
				w.Case(fmt.Sprint("rootattrs", st, "|", wd, "|", ht), func() *fw.Violation {
					w.Nontrivial()
					w.Count("root-attribute-cases", 1)
					viol := func(sig, exp, obs string) *fw.Violation {
						return &fw.Violation{Sub: "svg-root", Signature: sig, What: "attributes of the top-level svg element", Input: in, Expected: exp, Observed: obs}
					}
					var out bytes.Buffer
					rt := cli.NewPlatform(cli.WithSVG(st, wd, ht), cli.WithOutputWriter(&out))
					ev := evaluator.NewEvaluator(rt)
					if err := ev.Run("circle 5\ntext \"t\"\n"); err != nil {
						return viol("root-run-fails", "ok", err.Error())
					}
					var buf bytes.Buffer
					if err := rt.WriteSVG(&buf); err != nil {
						return viol("root-write-fails", "ok", err.Error())
					}
					dec := xml.NewDecoder(bytes.NewReader(buf.Bytes()))
					got := map[string]string{}
					first := true
					for {
						tok, err := dec.Token()
						if err == io.EOF {
							break
						}
						if err != nil {
							return viol("not-well-formed", "well-formed XML", err.Error()+"\n"+fw.Trunc(buf.String(), 300))
						}
						if se, ok := tok.(xml.StartElement); ok && first {
							first = false
							if se.Name.Local != "svg" {
								return viol("root-element", "svg", se.Name.Local)
							}
							for _, a := range se.Attr {
								got[a.Name.Local] = a.Value
							}
						}
					}
					for k, v := range in {
						if g, ok := got[k]; (v == "" && ok && g != "") || (v != "" && g != v) {
							return viol("root-attribute:"+k, fmt.Sprintf("%s=%q", k, v), fmt.Sprintf("%q (present: %v)", g, ok))
						}
					}
					plain, _, _ := runSVG([]string{"circle 5", "text \"t\""})
					strip := func(doc string) string { // everything after the root start tag
						if i := strings.Index(doc, ">"); i >= 0 {
							return doc[i:]
						}
						return doc
					}
					if strings.ContainsAny(st+wd+ht, ">") {
						return nil // the start tag's end cannot be located textually; the attribute comparison above is the check
					}
					if strip(buf.String()) != strip(plain) {
						return viol("root-attrs-change-drawing", fw.Trunc(strip(plain), 300), fw.Trunc(strip(buf.String()), 300))
					}
					return nil
				})
			}
		}
	}
}

func runC19(w *fw.Worker) {
	c19Endings(w)
	c19RootAttrs(w)
	depth := 3
	if !w.Quick() {
		depth = 4
	}
	states := map[string]bool{}
	var rec func(seq []string)
	rec = func(seq []string) {
		if w.Expired() {
			return
		}
		if len(seq) > 0 {
			s := append([]string(nil), seq...)
			key := strings.Join(s, "\n")
			if w.Mine(key) {
				w.RunCase(key, func() *fw.Violation {
					w.Nontrivial()
					w.Count("transitions", int64(len(s)))
					w.Count("traces_validated_against_impl", 1)
					v := checkC19(w, s, len(s) == 1)
					st := refCanvas(s).stateKey()
					if !states[st] {
						states[st] = true
						w.Count("states", 1)
					}
					if len(s) == 3 && hash(key)%5000 == 0 {
						w.Sample(s)
					}
					return v
				})
			}
		}
		if len(seq) == depth {
			return
		}
		alpha := c19Alphabet
		if len(seq) >= 3 {
			// fourth level: style changes and one shape of each kind
			alpha = []string{"line 30 40", "rect 10 20", "text \"a\"", "clear \"blue\"", "grid", "color \"red\"", "stroke \"blue\"", "fill \"none\"", "width 1", "dash 2 3", "font {size:3}", "circle 5"}
		}
		for _, c := range alpha {
			rec(append(seq, c))
		}
	}
	rec(nil)
	for _, odd := range c19Odd {
		for _, pre := range []string{"", "color \"red\"", "line 30 40"} {
			seq := []string{odd}
			if pre != "" {
				seq = []string{pre, odd, "circle 5"}
			}
			key := strings.Join(seq, "\n")
			w.Case(key, func() *fw.Violation { w.Nontrivial(); return checkC19(w, seq, false) })
		}
	}
}

// ---- reference pen state machine ---------------------------------------------------------------

type c19Style struct {
	Stroke, Fill, Dash, Linecap string
	Width                       float64
}

type c19Font struct {
	Family, Style, Baseline, Anchor, Spacing string
	Size, Weight                             float64
}

type c19Shape struct {
	Kind  string // line rect circle polyline ellipse text clear grid
	Geo   string // canonical geometry text in SVG coordinates
	Style c19Style
	Font  *c19Font
	Text  string
	// NoStyle: style not judged (clear: own colour; grid: own colour and widths)
	Color string
	// Lines (grid): every line of the grid in evy units, "v@x" / "h@y" with a trailing "T" for the thick ones, in drawing order
	// per direction; LinesRaw is the same with the y axis NOT flipped (to name the recorded defect precisely)
	Lines, LinesRaw string
}

type c19Canvas struct {
	x, y   float64
	st     c19Style
	font   c19Font
	shapes []c19Shape
	panic  bool
}

func g10(v float64) string { return strconv.FormatFloat(v, 'f', -1, 64) }

func newC19Canvas() *c19Canvas {
	c := &c19Canvas{x: 0, y: 1000,
		st:   c19Style{Stroke: "black", Fill: "black", Width: 1, Linecap: "round"},
		font: c19Font{Family: `"Fira Code", monospace`, Style: "normal", Baseline: "alphabetic", Anchor: "start", Spacing: "0", Size: 60, Weight: 400}}
	c.shapes = append(c.shapes, c19Shape{Kind: "clear", Color: "white"})
	return c
}

func (c *c19Canvas) stateKey() string { return fmt.Sprint(c.x, c.y, c.st, c.font, c.panic) }

func tx(x float64) float64 { return 10 * x }
func ty(y float64) float64 { return 1000 - 10*y }

func (c *c19Canvas) add(kind, geo string) {
	f := c.font
	s := c19Shape{Kind: kind, Geo: geo, Style: c.st}
	if kind == "text" {
		s.Font = &f
	}
	c.shapes = append(c.shapes, s)
}

// parseArgs splits a command of the alphabet into name and literal arguments.
func c19Args(cmd string) (string, []string) {
	i := strings.IndexByte(cmd, ' ')
	if i < 0 {
		return cmd, nil
	}
	return cmd[:i], []string{cmd[i+1:]}
}

func nums(s string) []float64 {
	var out []float64
	for _, f := range strings.Fields(strings.NewReplacer("[", " ", "]", " ").Replace(s)) {
		v, err := strconv.ParseFloat(f, 64)
		if err != nil {
			return nil
		}
		out = append(out, v)
	}
	return out
}

func refCanvas(cmds []string) *c19Canvas {
	c := newC19Canvas()
	for _, cmd := range cmds {
		name, rest := c19Args(cmd)
		arg := ""
		if len(rest) > 0 {
			arg = rest[0]
		}
		str := func() string { s, _ := strconv.Unquote(strings.TrimSpace(arg)); return s }
		n := nums(arg)
		switch name {
		case "move":
			c.x, c.y = tx(n[0]), ty(n[1])
		case "line":
			x, y := tx(n[0]), ty(n[1])
			c.add("line", fmt.Sprintf("%s,%s %s,%s", g10(c.x), g10(c.y), g10(x), g10(y)))
			c.x, c.y = x, y
		case "rect":
			w, h := 10*n[0], -10*n[1]
			x2, y2 := c.x+w, c.y+h
			c.add("rect", fmt.Sprintf("%s,%s %sx%s", g10(math.Min(c.x, x2)), g10(math.Min(c.y, y2)), g10(math.Abs(w)), g10(math.Abs(h))))
			c.x, c.y = x2, y2
		case "circle":
			c.add("circle", fmt.Sprintf("%s,%s r%s", g10(c.x), g10(c.y), g10(10*n[0])))
		case "poly":
			var pts []string
			for i := 0; i+1 < len(n); i += 2 {
				pts = append(pts, g10(tx(n[i]))+","+g10(ty(n[i+1])))
			}
			c.add("polyline", strings.Join(pts, " "))
		case "ellipse":
			rx, ry, rot := n[2], n[2], 0.0
			if len(n) > 3 {
				ry = n[3]
			}
			if len(n) > 4 {
				rot = n[4]
			}
			geo := fmt.Sprintf("%s,%s %sx%s rot%s", g10(tx(n[0])), g10(ty(n[1])), g10(10*rx), g10(10*ry), g10(rot))
			if len(n) > 6 && (n[5] != 0 || n[6] != 360) {
				geo += fmt.Sprintf(" arc%s-%s", g10(n[5]), g10(n[6]))
			}
			c.add("ellipse", geo)
		case "text":
			c.add("text", fmt.Sprintf("%s,%s", g10(c.x), g10(c.y)))
			c.shapes[len(c.shapes)-1].Text = str()
		case "clear":
			col := "white"
			if arg != "" {
				col = str()
			}
			c.shapes = append(c.shapes, c19Shape{Kind: "clear", Color: col})
		case "grid":
			c.shapes = append(c.shapes, c19Shape{Kind: "grid", Geo: "10", Color: "hsl(0deg 100% 0% / 50%)"})
		case "gridn":
			f := strings.Fields(arg)
			col, _ := strconv.Unquote(f[1])
			c.shapes = append(c.shapes, c19Shape{Kind: "grid", Geo: f[0], Color: col})
		case "color":
			c.st.Stroke, c.st.Fill = str(), str()
		case "stroke":
			c.st.Stroke = str()
		case "fill":
			c.st.Fill = str()
		case "width":
			c.st.Width = 10 * n[0]
		case "dash":
			var parts []string
			for _, v := range n {
				parts = append(parts, g10(10*v))
			}
			c.st.Dash = strings.Join(parts, " ")
		case "linecap":
			c.st.Linecap = str()
		case "font":
			body := strings.Trim(arg, "{}")
			for _, kv := range strings.Fields(body) {
				i := strings.IndexByte(kv, ':')
				k, v := kv[:i], kv[i+1:]
				sv, _ := strconv.Unquote(v)
				fv, _ := strconv.ParseFloat(v, 64)
				switch k {
				case "family":
					c.font.Family = sv
				case "size":
					c.font.Size = 10 * fv
				case "weight":
					c.font.Weight = fv
				case "style":
					c.font.Style = sv
				case "baseline":
					c.font.Baseline = map[string]string{"top": "hanging", "middle": "middle", "bottom": "ideographic", "alphabetic": "alphabetic"}[sv]
				case "align":
					c.font.Anchor = map[string]string{"left": "start", "center": "middle", "right": "end"}[sv]
				case "letterspacing":
					c.font.Spacing = g10(fv)
				}
			}
		}
	}
	return c
}

// ---- flattening the implementation's SVG -------------------------------------------------------

type svgNode struct {
	Name     string
	Attr     map[string]string
	Children []*svgNode
	Text     string
}

func parseSVG(data []byte) (*svgNode, error) {
	dec := xml.NewDecoder(bytes.NewReader(data))
	dec.Strict = true
	var stack []*svgNode
	var root *svgNode
	for {
		tok, err := dec.Token()
		if err != nil {
			if err.Error() == "EOF" {
				break
			}
			return nil, err
		}
		switch t := tok.(type) {
		case xml.StartElement:
			n := &svgNode{Name: t.Name.Local, Attr: map[string]string{}}
			for _, a := range t.Attr {
				n.Attr[a.Name.Local] = a.Value
			}
			if len(stack) > 0 {
				p := stack[len(stack)-1]
				p.Children = append(p.Children, n)
			} else {
				if root != nil {
					return nil, fmt.Errorf("two root elements")
				}
				root = n
			}
			stack = append(stack, n)
		case xml.EndElement:
			stack = stack[:len(stack)-1]
		case xml.CharData:
			if len(stack) > 0 {
				stack[len(stack)-1].Text += string(t)
			}
		}
	}
	if root == nil || len(stack) != 0 {
		return nil, fmt.Errorf("no root element or unbalanced document")
	}
	return root, nil
}

var inherited = []string{"fill", "stroke", "stroke-width", "stroke-linecap", "stroke-dasharray", "text-anchor", "dominant-baseline", "font-size", "font-weight", "font-style", "font-family", "letter-spacing"}

func flatten(n *svgNode, env map[string]string, out *[]c19Shape, inGrid bool) {
	e := map[string]string{}
	for k, v := range env {
		e[k] = v
	}
	for _, k := range inherited {
		if v, ok := n.Attr[k]; ok {
			e[k] = v
		}
	}
	num := func(k string) float64 { v, _ := strconv.ParseFloat(n.Attr[k], 64); return v }
	style := func() c19Style {
		w := 1.0
		if v, ok := e["stroke-width"]; ok {
			w, _ = strconv.ParseFloat(v, 64)
		}
		get := func(k, d string) string {
			if v, ok := e[k]; ok {
				return v
			}
			return d
		}
		return c19Style{Stroke: get("stroke", "none"), Fill: get("fill", "black"), Dash: get("stroke-dasharray", ""), Linecap: get("stroke-linecap", "butt"), Width: w}
	}
	switch n.Name {
	case "svg":
		for _, c := range n.Children {
			flatten(c, e, out, false)
		}
	case "g":
		// a grid is a group that carries its own stroke colour and contains only lines
		onlyLines := len(n.Children) > 0
		for _, c := range n.Children {
			if c.Name != "line" {
				onlyLines = false
			}
		}
		_, ownStroke := n.Attr["stroke"]
		if onlyLines && ownStroke && len(n.Children) >= 2 && isGridGroup(n) {
			ln, raw := gridLines(n)
			*out = append(*out, c19Shape{Kind: "grid", Geo: gridUnit(n), Color: n.Attr["stroke"], Style: style(), Lines: ln, LinesRaw: raw})
			return
		}
		for _, c := range n.Children {
			flatten(c, e, out, false)
		}
	case "line":
		*out = append(*out, c19Shape{Kind: "line", Geo: fmt.Sprintf("%s,%s %s,%s", g10(num("x1")), g10(num("y1")), g10(num("x2")), g10(num("y2"))), Style: style()})
	case "rect":
		if n.Attr["width"] == "100%" && n.Attr["height"] == "100%" {
			s := style()
			col := s.Fill
			if s.Stroke != s.Fill {
				col = s.Fill + "/" + s.Stroke
			}
			*out = append(*out, c19Shape{Kind: "clear", Color: col})
			return
		}
		*out = append(*out, c19Shape{Kind: "rect", Geo: fmt.Sprintf("%s,%s %sx%s", g10(num("x")), g10(num("y")), n.Attr["width"], n.Attr["height"]), Style: style()})
	case "circle":
		*out = append(*out, c19Shape{Kind: "circle", Geo: fmt.Sprintf("%s,%s r%s", g10(num("cx")), g10(num("cy")), g10(num("r"))), Style: style()})
	case "polyline":
		*out = append(*out, c19Shape{Kind: "polyline", Geo: n.Attr["points"], Style: style()})
	case "ellipse":
		rot := "0"
		if t := n.Attr["transform"]; t != "" {
			var a, cx, cy float64
			if _, err := fmt.Sscanf(t, "rotate(%f %f %f)", &a, &cx, &cy); err == nil {
				rot = g10(a)
				if g10(cx) != g10(num("cx")) || g10(cy) != g10(num("cy")) {
					rot += "@" + g10(cx) + "," + g10(cy)
				}
			} else {
				rot = "?" + t
			}
		}
		*out = append(*out, c19Shape{Kind: "ellipse", Geo: fmt.Sprintf("%s,%s %sx%s rot%s", g10(num("cx")), g10(num("cy")), g10(num("rx")), g10(num("ry")), rot), Style: style()})
	case "text":
		get := func(k, d string) string {
			if v, ok := e[k]; ok {
				return v
			}
			return d
		}
		f := &c19Font{Family: get("font-family", `"Fira Code", monospace`), Style: get("font-style", "normal"), Baseline: get("dominant-baseline", "alphabetic"), Anchor: get("text-anchor", "start"), Spacing: get("letter-spacing", "0")}
		f.Size, _ = strconv.ParseFloat(get("font-size", "60"), 64)
		f.Weight, _ = strconv.ParseFloat(get("font-weight", "400"), 64)
		*out = append(*out, c19Shape{Kind: "text", Geo: fmt.Sprintf("%s,%s", g10(num("x")), g10(num("y"))), Style: style(), Font: f, Text: n.Text})
	default:
		*out = append(*out, c19Shape{Kind: "unknown:" + n.Name})
	}
}

func isGridGroup(n *svgNode) bool {
	// grid lines come in pairs: a vertical line x1==x2 from 0 to 1000 and a horizontal one
	for i, c := range n.Children {
		if i%2 == 0 && (c.Attr["x1"] != c.Attr["x2"] || c.Attr["y1"] != "0" || c.Attr["y2"] != "1000") {
			return false
		}
		if i%2 == 1 && (c.Attr["y1"] != c.Attr["y2"] || c.Attr["x1"] != "0" || c.Attr["x2"] != "1000") {
			return false
		}
	}
	return true
}

// gridLines lists the lines of a rendered grid group in evy units: verticals by x, horizontals by y (flipped back, and raw).
func gridLines(n *svgNode) (flipped, raw string) {
	var v, h, hr []string
	for i, c := range n.Children {
		thick := ""
		if c.Attr["stroke-width"] != "" {
			thick = "T"
		}
		if i%2 == 0 {
			x, _ := strconv.ParseFloat(c.Attr["x1"], 64)
			v = append(v, "v@"+g10(x/10)+thick)
		} else {
			y, _ := strconv.ParseFloat(c.Attr["y1"], 64)
			h = append(h, "h@"+g10((1000-y)/10)+thick)
			hr = append(hr, "h@"+g10(y/10)+thick)
		}
	}
	sort.Strings(h) // the flip reverses the drawing order; compare as sets
	sort.Strings(hr)
	sort.Strings(v)
	return strings.Join(v, " ") + " | " + strings.Join(h, " "), strings.Join(v, " ") + " | " + strings.Join(hr, " ")
}

// gridLinesWant is the documented grid: lines at 0, unit, 2*unit ... <= 100 in both directions from the origin (bottom left),
// every fifth one thick. Only for units whose multiples are exact (unit*10 integral); "" otherwise (unit compared alone).
func gridLinesWant(unit float64) string {
	if unit <= 0 || unit*10 != math.Trunc(unit*10) {
		return ""
	}
	var v, h []string
	for k := 0; float64(k)*unit <= 100; k++ {
		thick := ""
		if k%5 == 0 {
			thick = "T"
		}
		v = append(v, "v@"+g10(float64(k)*unit)+thick)
		h = append(h, "h@"+g10(float64(k)*unit)+thick)
	}
	sort.Strings(v)
	sort.Strings(h)
	return strings.Join(v, " ") + " | " + strings.Join(h, " ")
}

func gridUnit(n *svgNode) string {
	if len(n.Children) >= 4 {
		a, _ := strconv.ParseFloat(n.Children[2].Attr["x1"], 64)
		return g10(a / 10)
	}
	return "?"
}

// runSVG runs the commands on the real evaluator with the real SVG platform.
func runSVG(cmds []string) (svgText string, class string, errText string) {
	src := strings.Join(cmds, "\n") + "\n"
	var out bytes.Buffer
	rt := cli.NewPlatform(cli.WithSVG("", "", ""), cli.WithOutputWriter(&out))
	defer func() {
		if r := recover(); r != nil {
			class, errText = "gopanic", fmt.Sprint(r)
		}
	}()
	ev := evaluator.NewEvaluator(rt)
	err := ev.Run(src)
	class = classifyErr(err)
	if err != nil {
		errText = err.Error()
	}
	var svgBuf bytes.Buffer
	if werr := rt.WriteSVG(&svgBuf); werr != nil {
		return "", "write-error", werr.Error()
	}
	return svgBuf.String(), class, errText
}

func checkC19(w *fw.Worker, cmds []string, cliToo bool) *fw.Violation {
	viol := func(sig, what, exp, obs string) *fw.Violation {
		return &fw.Violation{Sub: "svg", Signature: sig, What: what, Input: cmds, Expected: exp, Observed: obs}
	}
	svgText, class, errText := runSVG(cmds)
	if w != nil {
		w.Outcome(class)
	}
	if class == "gopanic" {
		return viol("gopanic", "host panic while drawing", "", errText)
	}
	odd := false
	for _, c := range cmds {
		for _, o := range c19Odd {
			if c == o {
				odd = true
			}
		}
	}
	root, err := parseSVG([]byte(svgText))
	if err != nil {
		return viol("not-well-formed", "the SVG output does not parse as XML", "well-formed XML", err.Error()+"\n"+fw.Trunc(svgText, 600))
	}
	if root.Name != "svg" {
		return viol("root-element", "root element is not <svg>", "svg", root.Name)
	}
	if odd {
		// arguments outside the documented domain: the run terminated and the document is well formed; a documented panic is fine
		if class != "ok" && class != "panic:bad-arguments" {
			return viol("odd-argument:"+class, "an out-of-domain argument ends in something other than completion or the documented panic", "ok or panic:bad-arguments", class+" "+errText)
		}
		return nil
	}
	if class != "ok" {
		return viol("drawing-failed:"+class, "a documented drawing command failed", "ok", class+" "+errText)
	}
	var got []c19Shape
	flatten(root, map[string]string{}, &got, false)
	want := refCanvas(cmds).shapes
	if w != nil {
		w.Count("shapes-compared", int64(len(want)))
	}
	if len(got) != len(want) {
		return viol("shape-count", "the document does not contain exactly one shape per drawing command", fmt.Sprint(len(want), " shapes: ", kinds(want)), fmt.Sprint(len(got), " shapes: ", kinds(got), "\n", fw.Trunc(svgText, 800)))
	}
	// compare every shape; a mismatch of a narrowly classified (recordable) class must not hide another one
	var narrow *fw.Violation
	for i := range want {
		for _, m := range cmpShape(want[i], got[i]) {
			v := viol(m[0], fmt.Sprintf("shape %d (%s) differs from what was drawn", i, want[i].Kind), m[1], m[2]+"\n"+fw.Trunc(svgText, 800))
			if !c19NarrowClass[m[0]] {
				return v
			}
			if narrow == nil {
				narrow = v
			}
		}
	}
	// a shape's rendering is a function of the command and the pen in effect, not of its neighbours: drawing the same command twice
	// in a row leaves the first shape as it was and gives the second one the same style (the writer has one path for a shape that
	// stands alone between two style changes and another for shapes that share a group)
	for i := range cmds {
		k := len(refCanvas(cmds[:i]).shapes)
		if len(refCanvas(cmds[:i+1]).shapes) != k+1 {
			continue // not a drawing command
		}
		twice := append(append(append([]string(nil), cmds[:i+1]...), cmds[i]), cmds[i+1:]...)
		svg2, class2, _ := runSVG(twice)
		root2, err2 := parseSVG([]byte(svg2))
		if class2 != "ok" || err2 != nil {
			return viol("repeated-command-fails", "drawing a command a second time fails", "ok", class2+"\n"+fw.Trunc(svg2, 400))
		}
		var got2 []c19Shape
		flatten(root2, map[string]string{}, &got2, false)
		if w != nil {
			w.Count("repeated-command-runs", 1)
		}
		if len(got2) != len(got)+1 {
			return viol("shape-count", "the document does not contain exactly one shape per drawing command", fmt.Sprint(len(got)+1, " shapes"), fmt.Sprint(len(got2), " shapes: ", kinds(got2), "\n", fw.Trunc(svg2, 800)))
		}
		show := func(s c19Shape, withGeo bool) string {
			f := "no font"
			if s.Font != nil {
				f = fmt.Sprintf("%+v", *s.Font)
			}
			if !withGeo {
				return fmt.Sprintf("%s style %+v colour %q font %s", s.Kind, s.Style, s.Color, f)
			}
			return fmt.Sprintf("%s %s %q style %+v colour %q font %s", s.Kind, s.Geo, s.Text, s.Style, s.Color, f)
		}
		a, b, c := got[k], got2[k], got2[k+1]
		if show(a, true) != show(b, true) || show(a, false) != show(c, false) {
			return viol("rendering-depends-on-neighbours:"+a.Kind, fmt.Sprintf("shape %d is rendered differently when the same command is drawn a second time right after it", k),
				show(a, true), "first: "+show(b, true)+" ; second: "+show(c, false)+"\n"+fw.Trunc(svg2, 600))
		}
	}
	if narrow != nil {
		return narrow
	}
	if cliToo {
		if v := c19CLI(w, cmds, svgText); v != nil {
			return v
		}
	}
	return nil
}

func kinds(s []c19Shape) string {
	var k []string
	for _, x := range s {
		k = append(k, x.Kind)
	}
	return strings.Join(k, " ")
}

// c19NarrowClass lists the signatures that describe one precise wrong field/value relation.
var c19NarrowClass = map[string]bool{"ellipse-y-not-flipped": true, "ellipse-arc-ignored": true, "ellipse-y-not-flipped+arc-ignored": true,
	"font-baseline-raw": true, "text-fill-from-stroke": true, "grid-inherits-pen-width": true, "gridn-y-not-flipped": true}

// cmpShape returns every mismatch {signature, expected, observed} between a drawn and a rendered shape.
func cmpShape(want, got c19Shape) (out [][3]string) {
	add := func(sig, exp, obs string) { out = append(out, [3]string{sig, exp, obs}) }
	if want.Kind != got.Kind {
		add("shape-kind", want.Kind, got.Kind)
		return
	}
	switch want.Kind {
	case "clear":
		if want.Color != got.Color {
			add("clear-colour", "full-size rect in "+want.Color, "full-size rect in "+got.Color)
		}
		return
	case "grid":
		if want.Color != got.Color {
			add("grid-colour", want.Color, got.Color)
		}
		wu, _ := strconv.ParseFloat(want.Geo, 64)
		gu, _ := strconv.ParseFloat(got.Geo, 64)
		if math.Abs(wu-gu) > 1e-9 {
			add("grid-unit", want.Geo, got.Geo)
		}
		if wl := gridLinesWant(wu); wl != "" && wl != got.Lines {
			if wl == got.LinesRaw {
				add("gridn-y-not-flipped", "horizontal lines counted from the bottom edge: "+wl, got.Lines)
			} else {
				add("grid-lines", wl, got.Lines)
			}
		}
		if got.Style.Width != 1 {
			add("grid-inherits-pen-width", "grid lines 0.1 units thin whatever the pen width", fmt.Sprint("stroke-width ", got.Style.Width))
		}
		return
	}
	if want.Geo != got.Geo {
		sig := "geometry:" + want.Kind
		if want.Kind == "ellipse" {
			sig = c19EllipseClass(want.Geo, got.Geo)
		}
		add(sig, want.Geo, got.Geo)
	}
	if want.Kind == "text" {
		if want.Text != got.Text {
			add("text-content", strconv.Quote(want.Text), strconv.Quote(got.Text))
		}
		if *want.Font != *got.Font {
			w2 := *want.Font
			w2.Baseline = got.Font.Baseline
			if w2 == *got.Font && (got.Font.Baseline == "top" || got.Font.Baseline == "bottom") {
				add("font-baseline-raw", fmt.Sprint(*want.Font), fmt.Sprint(*got.Font))
			} else {
				add("font", fmt.Sprint(*want.Font), fmt.Sprint(*got.Font))
			}
		}
		// documentation: only fill and color affect text
		if want.Style.Fill != got.Style.Fill {
			sig := "text-fill"
			if got.Style.Fill == want.Style.Stroke {
				sig = "text-fill-from-stroke"
			}
			add(sig, "fill "+want.Style.Fill, "fill "+got.Style.Fill)
		}
		return
	}
	if want.Style != got.Style {
		add("style:"+want.Kind, fmt.Sprintf("%+v", want.Style), fmt.Sprintf("%+v", got.Style))
	}
	return
}

// c19EllipseClass recognises the two recorded ellipse defects narrowly.
func c19EllipseClass(want, got string) string {
	var wx, wy, wrx, wry, wrot, gx, gy, grx, gry float64
	var grot string
	wantArc := strings.Contains(want, " arc")
	wn, _ := fmt.Sscanf(strings.Split(want, " arc")[0], "%f,%f %fx%f rot%f", &wx, &wy, &wrx, &wry, &wrot)
	gn, _ := fmt.Sscanf(got, "%f,%f %fx%f rot%s", &gx, &gy, &grx, &gry, &grot)
	if wn != 5 || gn != 5 {
		return "geometry:ellipse"
	}
	yNotFlipped := gx == wx && gy == 1000-wy && grx == wrx && gry == wry
	rotOK := grot == g10(wrot) // rotation centre equals (cx,cy) as written
	switch {
	case gx == wx && gy == wy && grx == wrx && gry == wry && rotOK && wantArc:
		return "ellipse-arc-ignored"
	case yNotFlipped && rotOK:
		if wantArc {
			return "ellipse-y-not-flipped+arc-ignored"
		}
		return "ellipse-y-not-flipped"
	}
	return "geometry:ellipse"
}

func classifyErr(err error) string {
	if err == nil {
		return "ok"
	}
	return run.Classify(err, false)
}

// c19Endings: whatever way the program ends (normally, exit, panic, failed test, run-time error), `evy run --svg-out` (file and "-")
// writes the complete document of what was drawn before.
func c19Endings(w *fw.Worker) {
	prefixes := [][]string{{"circle 5"}, {"move 10 10", "rect 3 3", "text \"a&b\""}, {"color \"red\"", "line 20 20", "fill \"none\"", "circle 2"}}
	endings := []struct {
		name string
		code []string
		exit int
	}{
		{"normal", nil, 0}, {"exit0", []string{"exit 0"}, 0}, {"exit3", []string{"exit 3"}, 3}, {"panic", []string{"panic \"boom\""}, 1},
		{"failed-test", []string{"test 1 2"}, 1}, {"index-error", []string{"a := [1]", "print a[5]"}, 1}, {"bad-argument", []string{"gridn 0 \"blue\""}, 1},
	}
	for pi, pre := range prefixes {
		for _, e := range endings {
			for _, toStdout := range []bool{false, true} {
				pre, e, toStdout := pre, e, toStdout
				in := c19EndingInput{Prefix: pre, Ending: e.code, Name: e.name, Exit: e.exit, Stdout: toStdout}
				w.Case(fmt.Sprint("ending", pi, e.name, toStdout), func() *fw.Violation {
					w.Nontrivial()
					w.Count("cli-endings", 1)
					return c19Ending(in)
				})
			}
		}
	}
}

type c19EndingInput struct {
	Prefix []string `json:"prefix"`
	Ending []string `json:"ending"`
	Name   string   `json:"name"`
	Exit   int      `json:"exit"`
	Stdout bool     `json:"svg_to_stdout"`
}

func c19Ending(in c19EndingInput) *fw.Violation {
	want, class, errText := runSVG(in.Prefix)
	if class != "ok" {
		return &fw.Violation{Sub: "svg-endings", Signature: "drawing-fails:" + class, What: "a plain sequence of drawing commands does not run", Input: in, Expected: "ok", Observed: class + " " + errText}
	}
	dir, err := os.MkdirTemp(os.Getenv("VERIF_BUILD_DIR"), "svge-")
	if err != nil {
		panic(err)
	}
	defer os.RemoveAll(dir)
	src := filepath.Join(dir, "p.evy")
	out := filepath.Join(dir, "out.svg")
	cmds := append(append([]string(nil), in.Prefix...), in.Ending...)
	os.WriteFile(src, []byte(strings.Join(cmds, "\n")+"\n"), 0o644)
	target := out
	if in.Stdout {
		target = "-"
	}
	cmd := exec.Command(os.Getenv("VERIF_EVY"), "run", "--svg-out", target, src)
	var so, se bytes.Buffer
	cmd.Stdout, cmd.Stderr = &so, &se
	rerr := cmd.Run()
	code := 0
	if ee, ok := rerr.(*exec.ExitError); ok {
		code = ee.ExitCode()
	} else if rerr != nil {
		panic(rerr)
	}
	got := so.String()
	if !in.Stdout {
		b, _ := os.ReadFile(out)
		got = string(b)
	}
	if code != in.Exit {
		return &fw.Violation{Sub: "svg-endings", Signature: "cli-exit-status:" + in.Name, What: "unexpected exit status", Input: in, Expected: fmt.Sprint(in.Exit), Observed: fmt.Sprint(code, " ", se.String())}
	}
	// on stdout the document follows whatever the program printed (e.g. the test summary)
	if got != want && !(in.Stdout && strings.HasSuffix(got, want)) {
		return &fw.Violation{Sub: "svg-endings", Signature: "cli-svg-incomplete:" + in.Name, What: "evy run --svg-out does not write the complete document of what was drawn when the program ends this way",
			Input: in, Expected: fw.Trunc(want, 400), Observed: fw.Trunc(got, 400) + " stderr=" + se.String()}
	}
	return nil
}

// c19CLI runs the sequence through `evy run --svg-out` and requires the same document.
func c19CLI(w *fw.Worker, cmds []string, want string) *fw.Violation {
	bin := os.Getenv("VERIF_EVY")
	dir, err := os.MkdirTemp(os.Getenv("VERIF_BUILD_DIR"), "svg-")
	if err != nil {
		panic(err)
	}
	defer os.RemoveAll(dir)
	src := filepath.Join(dir, "p.evy")
	out := filepath.Join(dir, "out.svg")
	os.WriteFile(src, []byte(strings.Join(cmds, "\n")+"\n"), 0o644)
	cmd := exec.Command(bin, "run", "--svg-out", out, src)
	var so, se bytes.Buffer
	cmd.Stdout, cmd.Stderr = &so, &se
	rerr := cmd.Run()
	if w != nil {
		w.Count("cli-runs", 1)
	}
	b, _ := os.ReadFile(out)
	if rerr != nil || string(b) != want || so.Len() != 0 {
		return &fw.Violation{Sub: "svg", Signature: "cli-svg-out", What: "evy run --svg-out does not write the document the platform produces", Input: cmds,
			Expected: fw.Trunc(want, 400), Observed: fmt.Sprint(rerr, " stdout=", so.String(), " stderr=", se.String(), "\n", fw.Trunc(string(b), 400))}
	}
	return nil
}
