package checks

import (
	"encoding/json"
	"fmt"
	"strings"
	"time"

	"evylang.dev/evy/pkg/evaluator"
	"verif/mc/fw"
	"verif/mc/pt"
	"verif/mc/run"
)

// C14 — running programs stay interruptible and stop cleanly (stop-point enumeration).

func init() {
	fw.Register(&fw.Check{
		ID:    "C14",
		Level: "fault_enumeration",
		Rule: "programs: all nestings to depth 1 (quick) / 2 (thorough), and one level deeper all with <= 3 deviations from the default generator choices, of {if, while, for x4, function call} with the C10 feature menu, plus a fixed family of endless loops, unbounded " +
			"recursion, niladic built-ins, test calls, and handler programs with delivered events. For each program: one uninterrupted run (horizon H = 300 / 2000 yields for endless ones) " +
			"recording N yields and the effect trace E with the yield count at every effect; then for EVERY k in 1..min(N,H) a run whose Yielder raises the stop flag inside the k-th Yield. " +
			"Oracle: (i) at least one yield between any two consecutive effects and endless programs reach the horizon; (ii) after the flag is raised Yield is never called again, the result " +
			"is 'stopped' for k < N, the effects are exactly the prefix of E performed before yield k (plus at most the one niladic built-in whose own step raised the flag, plus the test summary). " +
			"(iii) for every effect e of the uninterrupted run, a run in which the platform raises the flag inside e itself (Sleep/Read/Print...), once with and once without a Yielder " +
			"installed: result 'stopped', effects = a prefix of E ending at e or at a later effect that E reaches without a yield in between. " +
			"Non-trivial = a stop point strictly inside the run (1 <= k < N).",
		Assumptions: []string{"the browser side (pkg/wasm sleepingYielder, stop export; //go:build tinygo) cannot be built here and is not executed",
			"Go loops inside a single built-in do not yield; built-in arguments are kept small"},
		TrustedBase: []string{"recording platform /verif/mc/run"},
		Run:         runC14,
		Replay: func(sub string, in json.RawMessage) *fw.Violation {
			var d c14Input
			json.Unmarshal(in, &d)
			return checkC14(nil, d)
		},
		Watchdog:      90 * time.Second,
		DeadlineQuick: 4 * time.Minute, DeadlineThorough: 25 * time.Minute,
		Vacuity: func(m *fw.Result) string {
			if m.Counters["stop-points"] < 5000 || m.Counters["endless-programs"] < 3 {
				return fmt.Sprint("too few stop points / endless programs: ", m.Counters)
			}
			return ""
		},
	})
}

type c14Input struct {
	Src     string     `json:"src"`
	Events  []c15Event `json:"events,omitempty"`
	Horizon int        `json:"horizon"`
	Inputs  []string   `json:"inputs,omitempty"`
	// Nested marks programs in which an effectful call is an argument of another effectful call; the
	// per-call yield then precedes both effects and the between-effects rule does not apply.
	Nested bool `json:"nested,omitempty"`
	// MinYields: the uninterrupted run hands control to the yielder at least this often (one per loop iteration / call of the program)
	MinYields int `json:"min_yields,omitempty"`
}

func c14Specials() []c14Input {
	mk := func(src string, evs ...c15Event) c14Input { return c14Input{Src: src, Events: evs} }
	return []c14Input{
		mk("while true\n    print \"x\"\nend\n"),
		mk("x := 0\nwhile true\n    x = x + 1\nend\n"),
		mk("while true\n    if true\n        x := 1\n        x = x + 1\n    end\nend\n"),
		// endless loops whose condition is a leaf (literal / variable) and whose body has nothing to evaluate: still one yield per iteration
		mk("while true\n    // nothing\nend\n"),
		mk("go := true\nwhile go\n\n    // only a comment\n\nend\n"),
		mk("func spin\n    on := true\n    while on\n        // spin\n    end\nend\nprint \"a\"\nspin\n"),
		mk("func f n:num\n    f n+1\nend\nf 0\n"),
		mk("func f:num n:num\n    print n\n    return (f n+1)\nend\nprint (f 0)\n"),
		mk("for i := range 1000000\n    for j := range 1000000\n        print i j\n    end\nend\n"),
		mk("i := 0\nwhile true\n    for c := range \"ab\"\n        print c i\n    end\n    i = i + 1\nend\n"),
		mk("m := {a:1 b:2}\nwhile true\n    for k := range m\n        m[k] = m[k] + 1\n    end\nend\n"),
		mk("cls\nprint 1\ncls\ncls\nprint 2\n"),
		{Src: "a := read\nprint a\nb := read\nprint b (read)\ncls\n", Nested: true},
		mk("print 1\nsleep 0.001\nprint 2\ngrid\nprint 3\n"),
		mk("test 1 1\nprint \"a\"\ntest 1 2\nprint \"b\"\ntest true\nprint \"c\"\n"),
		mk("test true\nwhile true\n    test 1 1\nend\n"),
		mk("x := [1 2 3]\nfor e := range x\n    print e\n    x[0] = e\nend\nprint x (len x) (typeof x)\n"),
		mk("s := \"\"\nfor i := range 5\n    s = s + (sprint i)\n    print s (upper s) (len s)\nend\n"),
		mk("func g:num a:num b:num\n    return a + b\nend\nprint (g (g 1 2) (g 3 4))\nprint (g 1 (g 2 (g 3 4)))\n"),
		// a stop request that arrives inside any operand position ends the run there. Each statement has a call as the LAST thing evaluated
		// before its effect, so a dropped stop shows as an effect after the stop: index, both slice bounds, map values, array elements,
		// unary and binary operands, short-circuit operands, arguments, assignment values and targets, conditions, range bounds
		{Src: "func n:num\n    return 2\nend\ns := \"abcdef\"\na := [1 2 3 4]\nm := {k:0}\nx:any\nwhile true\n    print s[1:(n)]\n    print s[(n):]\n    print s[(n)]\n    print a[1:(n)]\n    print a[(n):]\n    print a[(n)]\n" +
			"    print {k:(n)}.k\n    print [(n)]\n    print -(n)\n    print 1+(n)\n    print (n)*2\n    print !((n) == 2)\n    print ((n) == 2 and (n) == 2)\n    print (false or (n) == 2)\n    print (len [(n)])\n" +
			"    x = (n)\n    print x\n    a[(n)] = 5\n    print a\n    a[0] = (n)\n    print a\n    m.k = (n)\n    print m\n    m[(sprint (n))] = 1\n    print m\n" +
			"    if (n) == 2\n        print \"if\"\n    end\n    if (n) == 3\n        print \"no\"\n    else if (n) == 2\n        print \"elif\"\n    end\n    for i := range (n)\n        print \"i\" i\n    end\n" +
			"    for i := range 1 (n)\n        print \"j\" i\n    end\n    for i := range 0 4 (n)\n        print \"k\" i\n    end\n    for e := range a[:(n)]\n        print e\n    end\n    y := s[:(n)]\n    print y\nend\n", Nested: true},
		// one yield per loop iteration and per call even when the body has no statement that yields by itself
		{Src: "for range 200\n    // nothing to do\nend\nprint \"done\"\n", MinYields: 200},
		{Src: "for i := range 150\n\n    // only comments\n\nend\nfor c := range \"abcdefghij\"\n    // c\nend\nfor e := range [1 2 3 4 5]\n    // e\nend\nfor k := range {a:1 b:2 c:3}\n    // k\nend\nprint \"done\"\n", MinYields: 150 + 10 + 5 + 3},
		{Src: "func f\n    // empty\nend\nfunc g:num\n    return 1\nend\nn := 0\nwhile n < 100\n    f\n    n = n + (g)\nend\nprint n\n", MinYields: 300},
		{Src: "x := 0\nfor i := range 100\n    if i < 0\n        x = 1\n    end\nend\nfor i := range 100\n    if i >= 0\n        // taken, empty\n    else\n        x = 2\n    end\nend\nprint x\n", MinYields: 200},
		mk("cnt := 0\nprint \"top\"\non key k:string\n    cnt = cnt + 1\n    for i := range 3\n        print k cnt i\n    end\nend\n",
			c15Event{"key", []any{"a"}}, c15Event{"key", []any{"b"}}),
		mk("print \"top\"\non animate\n    while true\n        print \"tick\"\n    end\nend\n", c15Event{"animate", []any{16.0}}),
		mk("on down x:num y:num\n    cls\n    print x y\n    cls\nend\n", c15Event{"down", []any{1.0, 2.0}}, c15Event{"down", []any{3.0, 4.0}}),
	}
}

func runC14(w *fw.Worker) {
	horizon := 300
	depth := 1
	if !w.Quick() {
		horizon, depth = 2000, 2
	}
	for _, sp := range c14Specials() {
		sp := sp
		sp.Horizon = horizon
		sp.Inputs = []string{"in1", "in2", "in3"}
		c14Program(w, sp, true)
	}
	for d := 0; d <= depth+1; d++ {
		d := d
		n := 0
		bound := -1
		if d > depth {
			bound = 3 // one level deeper: every program with at most 3 non-default generator choices
		}
		fw.Explore(bound, func(c *fw.Ctx) {
			if w.Expired() {
				return
			}
			g := &c10gen{c: c}
			body := g.block(d, c10ctx{})
			stmts := []pt.Stmt{pt.InferDecl{Name: "g", X: pt.N(0)}}
			stmts = append(stmts, body...)
			stmts = append(stmts, pt.Print(pt.S("end"), pt.V("g")))
			stmts = append(stmts, g.funcs...)
			n++
			c14Program(w, c14Input{Src: pt.Source(&pt.Prog{Stmts: stmts}), Horizon: horizon}, n%200 == 0)
		}, func(*fw.Ctx) bool { return !w.Expired() })
	}
}

func c14Program(w *fw.Worker, in c14Input, sample bool) {
	w.Case(in.Src+fmt.Sprint(in.Events), func() *fw.Violation {
		v := checkC14(w, in)
		if sample {
			w.Sample(in)
		}
		return v
	})
}

func toEvents(evs []c15Event) []evaluator.Event {
	var out []evaluator.Event
	for _, e := range evs {
		out = append(out, evaluator.Event{Name: e.Name, Params: e.Payload})
	}
	return out
}

func isSummary(e string) bool {
	return strings.HasPrefix(e, "print:✅") || strings.HasPrefix(e, "print:❌")
}

// checkC14 performs the uninterrupted run and every stop point of one program.
func checkC14(w *fw.Worker, in c14Input) *fw.Violation {
	viol := func(sig, what, exp, obs string, k int) *fw.Violation {
		return &fw.Violation{Sub: "stop", Signature: sig, What: what, Input: in, Expected: exp, Observed: fmt.Sprintf("stop at yield %d: %s", k, obs)}
	}
	evs := toEvents(in.Events)
	base := run.Run(in.Src, run.Opts{Budget: in.Horizon, Events: evs, Inputs: in.Inputs})
	if base.Class == "parse-error" {
		if w != nil {
			w.Count("skipped-parse-error", 1)
		}
		return nil // not a program (generator produced an ill-typed combination); other checks own acceptance
	}
	if base.Class == "gopanic" {
		return viol("gopanic:"+run.PanicSite(base.GoPanic), "host panic in the uninterrupted run", "", base.GoPanic, 0)
	}
	endless := base.Class == "budget" || (len(base.EventErrs) > 0 && base.EventErrs[len(base.EventErrs)-1] == "budget")
	if w != nil {
		w.Outcome("uninterrupted:" + base.Class)
		if endless {
			w.Count("endless-programs", 1)
		}
	}
	if in.MinYields > 0 && base.Yields < in.MinYields {
		return viol("too-few-yields", "the evaluator handed control to the yielder less often than once per loop iteration / call", fmt.Sprint(">= ", in.MinYields), fmt.Sprint(base.Yields), 0)
	}
	// (i) at least one yield between consecutive effects (each effect is produced by its own call)
	E := base.Trace
	if n := len(E); n > 0 && isSummary(E[n-1]) {
		E = E[:n-1]
	}
	prev := 0
	if len(E) > base.Yields {
		return viol("fewer-yields-than-calls", "fewer yields than effectful calls", fmt.Sprint(">= ", len(E)), fmt.Sprint(base.Yields), 0)
	}
	for i := range E {
		if base.YieldsAt[i] <= prev && !in.Nested {
			return viol("no-yield-between-effects", "two consecutive effects (separate calls / iterations) without a yield in between", "yield count increases before every effect",
				fmt.Sprintf("effect %d %q at yield count %d, previous effect at %d", i, E[i], base.YieldsAt[i], prev), 0)
		}
		prev = base.YieldsAt[i]
	}
	N := base.Yields
	if endless {
		N = in.Horizon
	}
	// (ii) every stop point
	for k := 1; k <= N; k++ {
		o := run.Run(in.Src, run.Opts{StopAt: k, Budget: in.Horizon + 10, Events: evs, Inputs: in.Inputs})
		if w != nil {
			w.Count("stop-points", 1)
			if k < N {
				w.Nontrivial()
			}
		}
		if o.Class == "gopanic" {
			return viol("gopanic:"+run.PanicSite(o.GoPanic), "host panic after the stop flag was raised", "stopped", o.GoPanic, k)
		}
		if o.YieldAfter != 0 {
			return viol("yield-after-stop", "the evaluator kept evaluating (called Yield) after the stop flag was raised", "no Yield after the flag", fmt.Sprint(o.YieldAfter, " further yields; class ", o.Class), k)
		}
		class := o.Class
		if len(o.EventErrs) > 0 {
			class = o.EventErrs[len(o.EventErrs)-1]
		}
		if k < N && class != "stopped" {
			return viol("not-stopped:"+class, "the run did not end with the 'stopped' result", "stopped", class+" "+o.Err, k)
		}
		// effects: exactly the prefix of E performed before yield k (+ at most one niladic built-in effect of the step that raised the flag)
		T := o.Trace
		if n := len(T); n > 0 && isSummary(T[n-1]) {
			T = T[:n-1]
		}
		// the flag is polled at the start of the next evaluation step: everything the uninterrupted run did
		// before yield k+1 may still happen (the step whose yield raised the flag, and the built-in call
		// it was the last argument of, complete); nothing after that may.
		strict, lax := 0, 0
		for strict < len(E) && base.YieldsAt[strict] < k {
			strict++
		}
		for lax = strict; lax < len(E) && base.YieldsAt[lax] <= k; lax++ {
		}
		before := lax
		okLen := len(T) == strict || len(T) == lax
		if k == N && !endless {
			okLen = okLen || len(T) == len(E)
		}
		if !okLen || len(T) > len(E) || run.TraceString(T) != run.TraceString(E[:len(T)]) {
			return viol("effects-not-prefix", "effects of the stopped run are not the prefix of the uninterrupted run performed before the stop point",
				fmt.Sprintf("%d effects: %s", before, run.Show(E[:before])), fmt.Sprintf("%d effects: %s", len(T), run.Show(T)), k)
		}
	}
	// (iii) the flag raised inside a platform effect (Sleep / Read / Print ... - where a platform without a yielder raises it), with and
	// without a Yielder installed: the run ends 'stopped'; only effects that the uninterrupted run performs without an evaluation step
	// in between (same yield count) may still follow
	if len(evs) == 0 {
		for _, noY := range []bool{false, true} {
			if noY && endless {
				continue // without a yielder nothing bounds an endless program whose remaining part has no effects
			}
			for k := 1; k <= len(E) && k <= in.Horizon; k++ {
				o := run.Run(in.Src, run.Opts{StopAtEffect: k, NoYielder: noY, Budget: in.Horizon + 10, Inputs: in.Inputs})
				if w != nil {
					w.Count("stop-in-effect-points", 1)
				}
				what := fmt.Sprintf("flag raised inside effect %d %q (yielder installed: %v)", k, E[k-1], !noY)
				if o.Class == "gopanic" && strings.Contains(o.GoPanic, run.StopIgnored) {
					return viol("stop-in-effect-ignored", "the run kept going after the platform raised the stop flag inside an effect: "+what, "stopped", "more than 25 further effects", k)
				}
				if o.Class == "gopanic" {
					return viol("gopanic:"+run.PanicSite(o.GoPanic), "host panic after the stop flag was raised: "+what, "stopped", o.GoPanic, k)
				}
				T := o.Trace
				if n := len(T); n > 0 && isSummary(T[n-1]) {
					T = T[:n-1]
				}
				lax := k
				for lax < len(E) && base.YieldsAt[lax] == base.YieldsAt[k-1] {
					lax++
				}
				last := k == len(E) || lax == len(E)
				if o.Class != "stopped" && !last {
					return viol("stop-in-effect-not-stopped:"+o.Class, "the run did not end with the 'stopped' result: "+what, "stopped", o.Class+" "+o.Err+" "+run.Show(T), k)
				}
				if len(T) < k || len(T) > lax || run.TraceString(T) != run.TraceString(E[:len(T)]) {
					return viol("stop-in-effect-effects", "effects after the stop flag was raised inside an effect: "+what,
						fmt.Sprintf("%d..%d effects: %s", k, lax, run.Show(E[:lax])), fmt.Sprintf("%d effects: %s", len(T), run.Show(T)), k)
				}
			}
		}
	}
	return nil
}
