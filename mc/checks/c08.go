package checks

import (
	"encoding/json"
	"fmt"
	"os"
	"sort"
	"strings"
	"time"

	"evylang.dev/evy/pkg/evaluator"
	"verif/mc/corpus"
	"verif/mc/fw"
	"verif/mc/run"
	"verif/mc/seam"
)

// C08 — parsing, formatting and running are deterministic (schedules = map iteration orders).

func init() {
	fw.Register(&fw.Check{
		ID:    "C08",
		Level: "model_checking",
		Rule: "schedules = iteration orders of every Go map the code ranges over, owned through a seam injected at build time into every `for ... range <map>` of pkg/{lexer,parser,evaluator," +
			"bytecode,cli,cli/svg} (regenerated from the working tree on every run). Programs: a family in which every map-backed collection holds 2..4 entries whose order could matter " +
			"(several unused variables per scope, map literals with effectful / differently typed values, several handlers and called built-ins, font with several invalid properties, map " +
			"equality / test on unequal maps, several errors of different kinds) plus the seed corpus. For each program the explorer enumerates, with <= 2 (quick) / 3 (thorough) deviations " +
			"from the sorted order: ALL n! orders of every range over <= 4 (5) keys and 8 structured orders (reversed, rotations, end swaps, first-to-last ...) of larger tables. The observation " +
			"(parse-error text and order, Format() text, platform trace, result text) must be identical over all schedules; plus in-process histories (A then B vs B alone) and repeated fresh " +
			"processes of the uninstrumented binary. States = distinct (program, schedule) pairs executed; transitions = range statements whose order was decided.",
		Assumptions: []string{"address- or timing-dependence that does not flow through a map range is out of reach of the seam (none found by reading: no %p, no time.Now outside RandSource initialisation and sleep)"},
		TrustedBase: []string{"go/packages type information used by /verif/mc/cmd/seamgen to find map ranges", "the rewritten range statement is semantically the original with a chosen order"},
		Run:         runC08,
		Replay: func(sub string, in json.RawMessage) *fw.Violation {
			var d c08Input
			json.Unmarshal(in, &d)
			if sub == "fresh-process" {
				o1, e1, c1, err := runEvy([]string{"run", "--rand-seed", "1"}, d.Src, "in\n")
				if err != nil {
					panic(err)
				}
				for k := 0; k < 8; k++ {
					if o2, e2, c2, _ := runEvy([]string{"run", "--rand-seed", "1"}, d.Src, "in\n"); o1 != o2 || e1 != e2 || c1 != c2 {
						return &fw.Violation{Sub: sub, Signature: "fresh-process-differs", What: "two runs of evy run in fresh processes differ", Input: d,
							Expected: fmt.Sprintf("%q %q %d", o1, e1, c1), Observed: fmt.Sprintf("%q %q %d", o2, e2, c2)}
					}
				}
				return nil
			}
			return checkC08(nil, d)
		},
		DeadlineQuick: 5 * time.Minute, DeadlineThorough: 25 * time.Minute,
		Vacuity: func(m *fw.Result) string {
			if !seam.Enabled {
				return "binary built without the map-iteration seam"
			}
			if m.Counters["states"] < 2000 || m.Counters["sites-hit"] < 10 {
				return fmt.Sprint("too few schedules or instrumented sites hit: ", m.Counters)
			}
			return ""
		},
		Extra: func(m *fw.Result, cov map[string]any) {
			if b, err := os.ReadFile(os.Getenv("VERIF_SEAM_SITES")); err == nil {
				var sites []string
				json.Unmarshal(b, &sites)
				cov["instrumented_map_range_sites"] = sites
			}
			var hit []string
			for k := range m.Counters {
				if strings.HasPrefix(k, "site:") {
					hit = append(hit, k[5:])
				}
			}
			sort.Strings(hit)
			cov["sites_executed"] = hit
		},
	})
}

type c08Input struct {
	Src      string   `json:"src"`
	Schedule []int    `json:"schedule,omitempty"` // explorer choices
	MaxFull  int      `json:"max_full,omitempty"` // maps up to this size get all permutations
	Before   string   `json:"before,omitempty"`   // program run first in the same process (history dimension)
	Events   []string `json:"events,omitempty"`
}

var c08Programs = []string{
	// state behind the predefined globals err / errmsg / pi: each run starts from their documented initial values, whatever an
	// earlier run in the same process left behind (a failed conversion as the last thing, an assignment)
	"print err errmsg pi\nn := str2num \"12x\"\nprint n err errmsg\n",
	"print err errmsg\nb := str2bool \"maybe\"\nprint b err errmsg\n",
	"print pi err errmsg\npi = 3\nerr = true\nerrmsg = \"mine\"\nprint pi err errmsg\n",
	"a := 1\nb := 2\nc := 3\n",
	"d := 4\nc := 3\nb := 2\na := 1\n",
	"if true\n    a := 1\n    b := 2\n    zz := 3\nend\n",
	"func f p1:num p2:num p3:num\n    x := 1\n    y := 2\nend\n",
	"for i := range 2\n    u := 1\n    v := 2\nend\n",
	"on key k:string\n    a := 1\n    b := 2\nend\n",
	"a := 1\nprint b\nc := \nd := 2\nfoo 1\n",
	"func n:num x:num\n    print \"n\" x\n    return x\nend\nm := {b:(n 1) a:(n 2) c:(n 3)}\nprint m\n",
	"func n:num x:num\n    print \"n\" x\n    return x\nend\nm := {d:(n 1) c:[(n 2)] b:(n 3) a:{z:(n 4) y:(n 5)}}\nprint m (typeof m)\n",
	"func s:string x:string\n    print x\n    return x\nend\nprint {k2:(s \"a\") k1:(s \"b\")}\nfor k := range {k2:(s \"c\") k1:(s \"d\")}\n    print k\nend\n",
	"font {zz:1 yy:2 xx:3}\n",
	"font {family:1 size:\"a\" weight:\"b\"}\n",
	"font {size:0 weight:0 align:\"x\" baseline:\"y\"}\n",
	"font {family:\"f\" size:2 weight:700 style:\"italic\" baseline:\"top\" align:\"center\" letterspacing:1}\n",
	"m := {a:[1] b:[] c:[\"x\"]}\nprint m (typeof m)\n",
	"m := {a:[] b:[1] c:[]}\nprint m (typeof m)\nn := {a:{} b:{x:1} c:{y:\"s\"}}\nprint n (typeof n)\n",
	"m := {a:[[]] b:[[1]] c:[[\"x\"]] d:[]}\nprint (typeof m)\n",
	"x:{}any\nx = {a:[1 2] b:{c:[]} d:1 e:\"s\"}\nprint x (typeof x) (typeof x.a) (typeof x.b)\n",
	"a := {x:1 y:2 z:3}\nb := {z:3 y:9 x:8}\nprint (a == b) (a != b) (a == {z:3 y:2 x:1})\ntest a b\ntest a {z:3 y:2 x:1}\n",
	"a := {x:[1] y:[2] z:[3]}\nb := {x:[1] y:[0] z:[0]}\ntest a b \"maps differ\"\nprint (a == b)\n",
	"on key k:string\n    print k\nend\non down x:num y:num\n    print x y\nend\non up\n    print 1\nend\non animate\n    print 2\nend\nprint (len \"a\") (upper \"b\") (lower \"C\") (abs -1) (floor 1.5)\n",
	"m := {c:3 a:1 b:2}\nfor k := range m\n    print k m[k]\n    del m k\nend\nm.z = 1\nm.a = 2\nprint m (has m \"a\") (len m)\n",
	"m := {c:3 a:1 b:2}\nn := m\ndel n \"a\"\nn.a = 5\nprint m n (sprint m) (repr m) (join [m] \",\")\nprintf \"%v\\n\" m\n",
	"x := 1\nfunc x\n    print 1\nend\nfunc x\n    print 2\nend\nfunc print\n    x\nend\nerr := 3\n",
	"func f\n    return 1\nend\nfunc g:num\n    print 1\nend\nbreak\nreturn\nf 1 2\ny := g 1\n",
	"print (typeof {a:1 b:\"s\"}) (typeof {a:[] b:{}}) (typeof [{a:1} {b:\"x\"} {}])\n",
	"a:any\na = {p:1 q:[2] r:{s:3}}\nb := a.({}any)\nfor k := range b\n    print k b[k] (typeof b[k])\nend\n",
	// literal typing with several map values: the verdict does not depend on which value type is looked at first
	"x := [1]\nmm:{}[]any\nmm = {b:[2] a:x}\nprint mm\n",
	"x := [1]\nd := {z:[2] b:x c:[\"s\"]}\ne := {z:[2] c:[3] b:x}\nprint (typeof d) (typeof e)\n",
	"x := {k:1}\nd := {p:{} q:x r:{j:2}}\nprint (typeof d)\nf:{}{}any\nf = {p:{} r:{j:2} q:x}\n",
	// every way a map value is duplicated keeps its insertion order: repetition, concatenation, slicing, assignment, any-wrapping, arguments, return values
	"row := [{x:0 y:1 c:2}] * 2\nprint row\nrow[0].z = 5\nprint row (row + [{q:1 p:2}]) row[0:1]\n",
	"cell := {x:0 y:0 color:\"red\" size:2}\nrow := [cell] * 3\nrow[1].x = 5\nprint row\nfor key := range row[2]\n    print key row[2][key]\nend\n",
	"func id:{}num m:{}num\n    return m\nend\nm := {c:3 a:1 b:2}\nn := id m\nx:any\nx = m\ny := [m m]\nz := {k:m}\nprint n x y z x.({}num)\nfor k := range (id m)\n    print k\nend\n",
}

func runC08(w *fw.Worker) {
	progs := append([]string(nil), c08Programs...)
	progs = append(progs, corpus.Seeds...)
	bound := 2
	maxFull := 4
	if !w.Quick() {
		bound, maxFull = 3, 5
		progs = append(progs, corpus.DocBlocks(corpus.RepoDir())...)
	}
	hits := seam.CountHits(true)
	for pi, src := range progs {
		if w.Expired() {
			break
		}
		src := src
		if !w.Mine(src) {
			continue
		}
		var first string
		var firstSet bool
		n := 0
		fw.Explore(bound, func(c *fw.Ctx) {
			if w.Expired() {
				return
			}
			w.Progress()
			decided := 0
			seam.SetOrderHook(func(k int, site string) []int {
				decided++
				return c08Order(c, k, site, maxFull)
			})
			obs := c08Observe(src, nil)
			seam.SetOrderHook(nil)
			w.Count("transitions", int64(decided))
			w.Count("states", 1)
			w.Count("traces_validated_against_impl", 1)
			sched := c.Choices()
			if !firstSet {
				first, firstSet = obs, true
				return
			}
			if obs != first {
				in := c08Input{Src: src, Schedule: sched, MaxFull: maxFull}
				w.RunCase(fmt.Sprint(src, sched), func() *fw.Violation { return checkC08(w, in) })
			}
			n++
		}, func(*fw.Ctx) bool { return !w.Expired() })
		w.Res.Evaluations += int64(n)
		w.Res.Nontrivial += int64(n)
		w.Outcome(fmt.Sprint("schedules:", n > 1))
		if pi < 3 {
			w.Sample(map[string]any{"src": src, "schedules_explored": n + 1})
		}
	}
	for site, cnt := range hits {
		if cnt > 0 {
			w.Count("site:"+site, 1)
		}
	}
	// sites-hit: counted once per shard, merged by max semantics is not available - count distinct sites via names
	sites := 0
	for _, cnt := range hits {
		if cnt > 0 {
			sites++
		}
	}
	if sites > 0 && w.Res.Counters["sites-hit"] < int64(sites) {
		w.Res.Counters["sites-hit"] = int64(sites)
	}
	// history dimension: A then B in one process vs B alone (state leaking through shared declarations)
	hp := progs
	if len(hp) > 40 {
		hp = hp[:40]
	}
	for _, a := range hp {
		for _, b := range hp {
			if w.Expired() {
				return
			}
			in := c08Input{Src: b, Before: a}
			w.Case("hist\x00"+a+"\x00"+b, func() *fw.Violation { w.Nontrivial(); w.Count("histories", 1); return checkC08(w, in) })
		}
	}
	// seeded random numbers: any seed other than 0 fixes the sequence
	for _, seed := range []string{"1", "7", "-7", "-1", "9223372036854775807", "-9223372036854775808"} {
		seed := seed
		w.Case("seed\x00"+seed, func() *fw.Violation {
			w.Nontrivial()
			w.Count("seeded-runs", 1)
			src := "for range 5\n    print (rand 1000000) (rand1)\nend\n"
			o1, e1, c1, err := runEvy([]string{"run", "--rand-seed=" + seed}, src, "")
			if err != nil {
				panic(err)
			}
			if c1 != 0 {
				return nil // the flag does not take this value
			}
			for k := 0; k < 3; k++ {
				o2, e2, c2, _ := runEvy([]string{"run", "--rand-seed=" + seed}, src, "")
				if o1 != o2 || e1 != e2 || c1 != c2 {
					return &fw.Violation{Sub: "fresh-process", Signature: "seeded-rand-differs", What: "two runs with the same --rand-seed print different random numbers", Input: c08Input{Src: src + "# --rand-seed=" + seed},
						Expected: fmt.Sprintf("%q", o1), Observed: fmt.Sprintf("%q", o2), NoConfirm: true}
				}
			}
			return nil
		})
	}
	// fresh processes: the uninstrumented binary twice
	for i, src := range hp {
		src := src
		if i%2 == 1 && w.Quick() {
			continue
		}
		w.Case("proc\x00"+src, func() *fw.Violation {
			w.Nontrivial()
			w.Count("fresh-process-pairs", 1)
			o1, e1, c1, err := runEvy([]string{"run", "--rand-seed", "1"}, src, "in\n")
			if err != nil {
				panic(err)
			}
			for k := 0; k < 3; k++ {
				o2, e2, c2, _ := runEvy([]string{"run", "--rand-seed", "1"}, src, "in\n")
				if o1 != o2 || e1 != e2 || c1 != c2 {
					return &fw.Violation{Sub: "fresh-process", Signature: "fresh-process-differs", What: "two runs of evy run in fresh processes differ", Input: c08Input{Src: src},
						Expected: fmt.Sprintf("%q %q %d", o1, e1, c1), Observed: fmt.Sprintf("%q %q %d", o2, e2, c2), NoConfirm: true}
				}
			}
			return nil
		})
	}
}

// c08Order decides the order of one range over k keys: all k! orders for small maps (one choice point),
// eight structured orders for large tables.
func c08Order(c *fw.Ctx, k int, site string, maxFull int) []int {
	perm := make([]int, k)
	for i := range perm {
		perm[i] = i
	}
	if k <= maxFull {
		f := 1
		for i := 2; i <= k; i++ {
			f *= i
		}
		idx := c.Choose(f, "perm:"+site)
		// decode idx in the factorial number system
		pool := append([]int(nil), perm...)
		for i := 0; i < k; i++ {
			f /= (k - i)
			j := idx / f
			idx %= f
			perm[i] = pool[j]
			pool = append(pool[:j], pool[j+1:]...)
		}
		return perm
	}
	switch c.Choose(8, "big:"+site) {
	case 1: // reversed
		for i := range perm {
			perm[i] = k - 1 - i
		}
	case 2: // rotate by one
		for i := range perm {
			perm[i] = (i + 1) % k
		}
	case 3: // rotate by half
		for i := range perm {
			perm[i] = (i + k/2) % k
		}
	case 4: // swap the first two
		perm[0], perm[1] = 1, 0
	case 5: // swap the last two
		perm[k-1], perm[k-2] = k-2, k-1
	case 6: // last first
		for i := range perm {
			perm[i] = (i + k - 1) % k
		}
	case 7: // odd positions first
		j := 0
		for i := 1; i < k; i += 2 {
			perm[j] = i
			j++
		}
		for i := 0; i < k; i += 2 {
			perm[j] = i
			j++
		}
	}
	return perm
}

// c08Observe returns everything the property calls observable for one run of src.
func c08Observe(src string, events []evaluator.Event) string {
	var sb strings.Builder
	prog, errs, gp := run.Parse(src)
	if gp != "" {
		return "PARSE-PANIC " + gp
	}
	if prog == nil {
		sb.WriteString("ERRORS\n" + errs.Error())
		return sb.String()
	}
	sb.WriteString("FORMAT\n" + prog.Format())
	o := run.Run(src, run.Opts{Budget: 5000, Inputs: []string{"in"}, Events: events})
	sb.WriteString("\nCLASS " + o.Class + "\nERR " + o.Err + "\nTRACE " + run.Show(o.Trace))
	return sb.String()
}

func checkC08(w *fw.Worker, in c08Input) *fw.Violation {
	if in.Before != "" {
		alone := c08Observe(in.Src, nil)
		c08Observe(in.Before, nil)
		after := c08Observe(in.Src, nil)
		if alone != after {
			return &fw.Violation{Sub: "history", Signature: "history-dependent", What: "running another program first in the same process changes the observation", Input: in, Expected: alone, Observed: after}
		}
		return nil
	}
	base := c08Observe(in.Src, nil)
	try := func(schedule []int) (obs, site string) {
		fw.Replay(schedule, func(c *fw.Ctx) {
			seam.SetOrderHook(func(k int, s string) []int {
				before := c.Deviations()
				p := c08Order(c, k, s, in.MaxFull)
				if c.Deviations() > before {
					site += s + " "
				}
				return p
			})
			defer seam.SetOrderHook(nil)
			obs = c08Observe(in.Src, nil)
		})
		return obs, strings.TrimSpace(site)
	}
	obs, site := try(in.Schedule)
	if obs == base {
		return nil
	}
	// attribute: the smallest set of deviations (a single one if possible) that still changes the observation
	for i, v := range in.Schedule {
		if v == 0 {
			continue
		}
		single := make([]int, i+1)
		single[i] = v
		if o, s1 := try(single); o != base {
			obs, site = o, s1
			in.Schedule = single
			break
		}
	}
	return &fw.Violation{Sub: "schedule", Signature: "order-dependent:" + site, What: "the observation depends on the iteration order of a Go map", Input: in,
		Expected: base, Observed: obs}
}
