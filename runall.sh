#!/bin/bash
# runs the given tier (default quick) of every check registered in MANIFEST.json, prints one summary line each
T=${1:-quick}
for id in $(python3 -c "import json;print(' '.join(c['property_id'] for c in json.load(open('/verif/MANIFEST.json'))['checks']))"); do
  out=$(./check $id $T 2>&1); rc=$?
  echo "rc=$rc $(echo "$out" | tail -1)"
  echo "$out" | grep -E "^(VIOLATION|BROKEN|KNOWN)" | head -5
done
